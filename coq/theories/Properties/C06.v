(* C06 — lockedfile: a write lock excludes every other holder, across processes.
   Only the property theorems, each closed by [exact] of a lemma proved in
   LockedFile/LockProofs.v, with Print Assumptions beneath it.  The flock semantics of the OS
   model (LockedFile.os_step) is assumed of the kernel; everything else is about the library's
   protocol, for every schedule of any number of clients. *)
From Coq Require Import List NArith.
From Coq.Strings Require Import Byte.
From GI Require Import Gen.LockedFileConsts LockedFile.LockedFile LockedFile.LockBasics LockedFile.LockProofs LockedFile.MutexFacts
  LockedFile.LockedFileA LockedFile.LockProofsA.
From GI Require Import LockedFile.Policy LockedFile.PolicyProofs LockedFile.PolicyCall LockedFile.PolicyLock.
From GI Require Import LockedFile.ApiCloses.
From GI Require Import LockedFile.DeferClose.
From GI Require Import LockedFile.Handles LockedFile.HandleProofs.
Import ListNotations.

Theorem C06_write_flags_exclusive : forall flags,
  In (N.land flags lock_switch_mask) [sys_O_WRONLY; sys_O_RDWR] ->
  lock_mode_of_flags flags = Some LEx.
Proof. exact write_flags_exclusive. Qed.
Print Assumptions C06_write_flags_exclusive.

Theorem C06_rdonly_shared : forall flags,
  ~ In (N.land flags lock_switch_mask) [sys_O_WRONLY; sys_O_RDWR] ->
  lock_mode_of_flags flags = Some LSh.
Proof. exact rdonly_shared. Qed.
Print Assumptions C06_rdonly_shared.

Theorem C06_api_lock_modes : forall d t b,
  lock_mode_of_flags (flags_of_call (CWrite d)) = Some LEx /\
  lock_mode_of_flags (flags_of_call (CTransform t)) = Some LEx /\
  lock_mode_of_flags (flags_of_call (CCreate b)) = Some LEx /\
  lock_mode_of_flags (flags_of_call (CEdit b)) = Some LEx /\
  lock_mode_of_flags (flags_of_call CMutex) = Some LEx /\
  lock_mode_of_flags (flags_of_call CRead) = Some LSh /\
  lock_mode_of_flags (flags_of_call (COpen b)) = Some LSh.
Proof. exact call_lock_modes. Qed.
Print Assumptions C06_api_lock_modes.

Theorem C06_mutex_is_exclusive : lock_mode_of_flags (flags_of_call CMutex) = Some LEx.
Proof. exact mutex_is_exclusive. Qed.
Print Assumptions C06_mutex_is_exclusive.

(* at every instant of every schedule: two clients between the return of their locking call
   and their Close, on one inode, are both read-lockers *)
Theorem C06_exclusion : forall cfg f s c d,
  wf_cfg cfg -> reachable cfg f s ->
  c <> d -> c_ino (cfg c) = c_ino (cfg d) -> in_cs s c -> in_cs s d ->
  mode_of cfg c = Some LSh /\ mode_of cfg d = Some LSh.
Proof. exact exclusion. Qed.
Print Assumptions C06_exclusion.

Theorem C06_writer_excludes_all : forall cfg f s c d,
  wf_cfg cfg -> reachable cfg f s ->
  c <> d -> c_ino (cfg c) = c_ino (cfg d) ->
  mode_of cfg c = Some LEx -> in_cs s c -> ~ in_cs s d.
Proof. exact writer_excludes_all. Qed.
Print Assumptions C06_writer_excludes_all.

Theorem C06_held_until_close : forall cfg f s c,
  wf_cfg cfg -> reachable cfg f s ->
  (progs s c = after_open (body_of_call (c_call (cfg c))) \/ in_cs s c \/
   exists x, progs s c = close_prog (Ret x)) ->
  exists m, mode_of cfg c = Some m /\ holds_lock cfg s c m.
Proof. exact held_from_before_return_to_unlock. Qed.
Print Assumptions C06_held_until_close.

Theorem C06_released_by_close : forall cfg f s c r,
  wf_cfg cfg -> reachable cfg f s -> returned s c r ->
  forall i k, holds c k (ltab (st_os s) i) = false.
Proof. exact released_by_close. Qed.
Print Assumptions C06_released_by_close.

Theorem C06_no_truncate_before_lock : forall cfg f s c,
  wf_cfg cfg -> reachable cfg f s ->
  (forall fl', first_op (progs s c) = Some (OOpen fl') -> has_flag fl' sys_O_TRUNC = false) /\
  (forall n, first_op (progs s c) = Some (OFtruncate n) ->
             exists m, mode_of cfg c = Some m /\ holds_lock cfg s c m).
Proof. exact no_truncate_before_lock. Qed.
Print Assumptions C06_no_truncate_before_lock.

Theorem C06_io_under_lock : forall cfg f s c o,
  wf_cfg cfg -> reachable cfg f s ->
  first_op (progs s c) = Some o -> is_io o = true ->
  exists m, mode_of cfg c = Some m /\ holds_lock cfg s c m.
Proof. exact io_under_lock. Qed.
Print Assumptions C06_io_under_lock.

Theorem C06_open_flags_stripped : forall flags,
  has_flag (strip flags openfile_strip_mask) sys_O_TRUNC = false /\
  accmode (strip flags openfile_strip_mask) = accmode flags.
Proof. exact open_flags_stripped. Qed.
Print Assumptions C06_open_flags_stripped.

(* Mutex: the zero value / an empty path panic instead of locking "" *)
Theorem C06_mutex_zero_value_panics : mutex_lock [] = MPanic mutex_lock_panic_msg.
Proof. exact mutex_zero_value_panics. Qed.
Print Assumptions C06_mutex_zero_value_panics.

Theorem C06_mutex_nonempty_locks : forall path,
  path <> [] -> mutex_lock path = MRun (prog_of_call CMutex) /\
                lock_mode_of_flags (flags_of_call CMutex) = Some LEx.
Proof. exact mutex_nonempty_locks. Qed.
Print Assumptions C06_mutex_nonempty_locks.

Theorem C06_mutex_at_empty_panics : mutex_at [] = inr mutexat_panic_msg.
Proof. exact mutex_at_empty_panics. Qed.
Print Assumptions C06_mutex_at_empty_panics.

Theorem C06_mutex_creates_lock_file :
  has_flag mutex_flags sys_O_CREATE = true /\
  match run_seq 0 0 (prog_of_call CMutex) no_faults 0 (os_with None) with
  | (tr, out, s') =>
      out = Finished ResOk /\ files s' 0 = Some [] /\ ltab s' 0 = [] /\ fds s' 0 = None /\
      In (OFlock sys_LOCK_EX, ROk) tr
  end.
Proof. exact mutex_creates_lock_file. Qed.
Print Assumptions C06_mutex_creates_lock_file.

(* the files compiled on this platform are the flock(2) back end the model describes
   (genconsts refuses to generate the constants otherwise) *)
Theorem C06_backend_is_flock : filelock_backend_is_flock = true.
Proof. exact backend_is_flock. Qed.
Print Assumptions C06_backend_is_flock.

Theorem C06_truncate_error_keeps_lock : truncate_unlock_inside_regular_check = true.
Proof. exact truncate_error_keeps_lock. Qed.
Print Assumptions C06_truncate_error_keeps_lock.

(* Mutex.Lock (like every call) returns the error of its open: no second open, no lock *)
Theorem C06_open_error_is_returned : forall fl b i c plan s s',
  os_step i c (OOpen (strip fl openfile_strip_mask)) (plan 0) false s = Some (RErr, s') ->
  run_seq i c (client_prog fl b) plan 0 s =
  ([(OOpen (strip fl openfile_strip_mask), RErr)], Finished ResErr, s').
Proof. exact open_error_is_returned. Qed.
Print Assumptions C06_open_error_is_returned.

(* ---- with inode attributes: files that are not regular (Truncate fails and is ignored) and
   files the caller may not open; the model above is the special case of default attributes *)
Theorem C06_plain_model_is_special_case : forall cfg f s,
  reachable cfg f s <-> reachable_a (lift cfg) f s.
Proof. exact reachable_lift. Qed.
Print Assumptions C06_plain_model_is_special_case.

Theorem C06_attr_exclusion : forall cfg f s c d,
  wf_cfg_a cfg -> reachable_a cfg f s ->
  c <> d -> ca_ino (cfg c) = ca_ino (cfg d) -> in_cs s c -> in_cs s d ->
  mode_of_a cfg c = Some LSh /\ mode_of_a cfg d = Some LSh.
Proof. exact exclusion_a. Qed.
Print Assumptions C06_attr_exclusion.

Theorem C06_attr_held_until_close : forall cfg f s c,
  wf_cfg_a cfg -> reachable_a cfg f s ->
  (progs s c = after_open (body_of_call (ca_call (cfg c))) \/ in_cs s c \/
   exists x, progs s c = close_prog (Ret x)) ->
  exists m, mode_of_a cfg c = Some m /\ holds_lock_a cfg s c m.
Proof. exact held_from_before_return_to_unlock_a. Qed.
Print Assumptions C06_attr_held_until_close.

Theorem C06_attr_released_by_close : forall cfg f s c r,
  wf_cfg_a cfg -> reachable_a cfg f s -> returned s c r ->
  forall i k, holds c k (ltab (st_os s) i) = false.
Proof. exact released_by_close_a. Qed.
Print Assumptions C06_attr_released_by_close.

Theorem C06_attr_io_under_lock : forall cfg f s c o,
  wf_cfg_a cfg -> reachable_a cfg f s ->
  first_op (progs s c) = Some o -> is_io o = true ->
  exists m, mode_of_a cfg c = Some m /\ holds_lock_a cfg s c m.
Proof. exact io_under_lock_a. Qed.
Print Assumptions C06_attr_io_under_lock.

(* Create on a FIFO or device node: Truncate fails, is ignored, the caller holds the exclusive
   lock through its critical section, Close releases it *)
Theorem C06_create_on_nonregular : forall old,
  match run_seq_a nonregular 0 0 (prog_of_call_a nonregular (CCreate (Ret ResOk))) no_faults 0
                  (os_with (Some old)) with
  | (tr, out, s') =>
      tr = [(OOpen (strip create_flags openfile_strip_mask), ROk); (OFlock sys_LOCK_EX, ROk);
            (OFtruncate (N.to_nat truncate_size), RErr); (OMark MReturned, ROk);
            (OMark MCloseCalled, ROk); (OFlock sys_LOCK_UN, ROk); (OClose, ROk)] /\
      out = Finished ResOk /\ files s' 0 = Some old /\ ltab s' 0 = [] /\ fds s' 0 = None
  end.
Proof. exact create_on_nonregular. Qed.
Print Assumptions C06_create_on_nonregular.

Theorem C06_nonregular_returned_locked : forall cfg f s c,
  wf_cfg_a cfg -> reachable_a cfg f s ->
  a_regular (ca_attr (cfg c)) = false ->
  progs s c = after_open (body_of_call (ca_call (cfg c))) ->
  exists m, mode_of_a cfg c = Some m /\ holds_lock_a cfg s c m.
Proof. exact nonregular_returned_locked. Qed.
Print Assumptions C06_nonregular_returned_locked.

(* Mutex.Lock by a caller who may read but not write the lock file: the open error is returned,
   no lock is taken (no fallback to a read-only, shared-locking open) *)
Theorem C06_mutex_on_readonly_lock_file : forall b0,
  match run_seq_a readonly 0 0 (prog_of_call_a readonly CMutex) no_faults 0 (os_with (Some b0)) with
  | (tr, out, s') =>
      tr = [(OOpen (strip mutex_flags openfile_strip_mask), RErr)] /\ out = Finished ResErr /\
      ltab s' 0 = [] /\ fds s' 0 = None
  end.
Proof. exact mutex_on_readonly_lock_file. Qed.
Print Assumptions C06_mutex_on_readonly_lock_file.

Theorem C06_denied_client_never_locks : forall cfg f sched c,
  let s := run_a cfg (init_state_a cfg f) sched in
  f (ca_ino (cfg c)) <> None ->
  open_denied (ca_attr (cfg c)) (strip (flags_of_call (ca_call (cfg c))) openfile_strip_mask) = true ->
  (progs s c = prog_of_call_a (ca_attr (cfg c)) (ca_call (cfg c)) \/ progs s c = Ret ResErr) /\
  fds (st_os s) c = None /\ status s c = SIdle /\ files (st_os s) (ca_ino (cfg c)) <> None.
Proof. exact denied_client_never_locks. Qed.
Print Assumptions C06_denied_client_never_locks.

(* ---- "…and is released by that call", on EVERY path (Policy.v: the fault of each operation is
   chosen by an arbitrary policy that sees the whole history — one-shot or persistent failures of
   open, flock, read, write, truncate, close).  OpenFile(fl); any I/O-only body; Close, started by
   a caller without a descriptor, others possibly holding locks: if the call returns, the caller
   holds no descriptor and no lock on the file, and opens and closes balance *)
Theorem C06_released_on_every_path : forall i c fl b pol h s,
  io_only b -> fds s c = None -> locked c (ltab s i) = None -> refs s c = 0 ->
  match run_pol i c (client_prog fl b) pol h s with
  | (h', Finished _, s') =>
      fds s' c = None /\ (forall k, holds c k (ltab s' i) = false) /\
      opens h' + closes h = closes h' + opens h
  | (_, Blocked, _) => True
  end.
Proof. exact released_on_every_path. Qed.
Print Assumptions C06_released_on_every_path.

(* every API call: Read, Write, Transform (any function), Create/Edit/Open/OpenFile + I/O + Close,
   Mutex.Lock + unlock *)
Theorem C06_api_released_on_every_path : forall i c (cl : call) pol s,
  wf_call cl -> fds s c = None -> locked c (ltab s i) = None -> refs s c = 0 ->
  match run_pol i c (prog_of_call cl) pol [] s with
  | (h', Finished _, s') =>
      fds s' c = None /\ (forall k, holds c k (ltab s' i) = false) /\ opens h' = closes h'
  | (_, Blocked, _) => True
  end.
Proof. exact api_released_on_every_path. Qed.
Print Assumptions C06_api_released_on_every_path.

Theorem C06_fd_balanced : forall i c (cl : call) pol s,
  wf_call cl -> fds s c = None -> locked c (ltab s i) = None -> refs s c = 0 ->
  match run_pol i c (prog_of_call cl) pol [] s with
  | (h', Finished _, s') => opens h' = closes h' /\ fds s' c = None
  | (_, Blocked, _) => True
  end.
Proof. exact fd_balanced. Qed.
Print Assumptions C06_fd_balanced.

(* Write with ANY content reader (io.Copy: one write per delivered chunk, then the reader's own
   error) is such a call *)
Theorem C06_writer_is_an_api_call : forall chunks rerr, wf_call (writer_call chunks rerr).
Proof. exact wf_writer_call. Qed.
Print Assumptions C06_writer_is_an_api_call.

(* Close under any faults: the file is untouched, the descriptor closed, the lock gone *)
Theorem C06_close_releases_under_faults : forall i c x pol h s,
  isopen (fds s c) = true -> refs s c = 0 ->
  exists h' s', run_pol i c (close_part x) pol h s = (h', Finished x, s') /\
    files s' = files s /\ fds s' c = None /\ locked c (ltab s' i) = None.
Proof. exact run_pol_close_part. Qed.
Print Assumptions C06_close_releases_under_faults.

(* the policy semantics extends the position-plan semantics the other fault theorems use *)
Theorem C06_policies_extend_plans : forall i c p plan h s,
  run_pol i c p (pol_of_plan plan) h s =
  match run_seq i c p plan (length h) s with
  | (tr, out, s') => (rev tr ++ h, out, s')
  end.
Proof. exact PolicyTransform.run_pol_plan. Qed.
Print Assumptions C06_policies_extend_plans.

(* the error paths of the locking call itself, under any policy and from any OS state: either
   the lock request succeeded, or the call failed (or is blocked) and never handed a File out *)
Theorem C06_no_file_without_lock : forall i c fl b pol s,
  match run_pol i c (client_prog fl b) pol [] s with
  | (h', out, _) =>
      In (OFlock (lock_arg_of_flags fl), ROk) h' \/
      ((out = Finished ResErr \/ out = Blocked) /\ forall r0, ~ In (OMark MReturned, r0) h')
  end.
Proof. exact no_file_without_lock. Qed.
Print Assumptions C06_no_file_without_lock.

(* Mutex.Lock: a nil error means LOCK_EX was granted, whatever else failed *)
Theorem C06_mutex_success_means_locked : forall i c pol s,
  match run_pol i c (prog_of_call CMutex) pol [] s with
  | (h', out, _) => out = Finished ResOk -> In (OFlock sys_LOCK_EX, ROk) h'
  end.
Proof. exact mutex_success_means_locked. Qed.
Print Assumptions C06_mutex_success_means_locked.

Theorem C06_write_call_success_means_locked : forall i c (cl : call) pol s,
  lock_mode_of_flags (flags_of_call cl) = Some LEx ->
  match run_pol i c (prog_of_call cl) pol [] s with
  | (h', out, _) =>
      (exists r, out = Finished r /\ r <> ResErr) -> In (OFlock sys_LOCK_EX, ROk) h'
  end.
Proof. exact write_call_success_means_locked. Qed.
Print Assumptions C06_write_call_success_means_locked.

(* every schedule of any number of clients: a call that has returned holds no descriptor *)
Theorem C06_returned_closed : forall cfg f s c r,
  wf_cfg cfg -> reachable cfg f s -> returned s c r -> fds (st_os s) c = None.
Proof. exact returned_closed. Qed.
Print Assumptions C06_returned_closed.

(* the path keeps naming the file that carries the lock: no operation of any program unlinks,
   renames or replaces it — under every policy, and in every schedule *)
Theorem C06_file_never_removed : forall i c p pol h s j,
  files s j <> None ->
  match run_pol i c p pol h s with (_, _, s') => files s' j <> None end.
Proof. exact file_never_removed. Qed.
Print Assumptions C06_file_never_removed.

Theorem C06_file_never_removed_sched : forall cfg f s j,
  reachable cfg f s -> f j <> None -> files (st_os s) j <> None.
Proof. exact file_never_removed_sched. Qed.
Print Assumptions C06_file_never_removed_sched.

(* the structure of the source these programs rely on (regenerated from the AST on every run):
   Read, Write and Transform close the File they acquired before any statement that can return,
   and the unlock function of Mutex.Lock calls Close *)
Theorem C06_api_closes_on_every_path :
  read_closes_on_every_path = true /\ write_closes_on_every_path = true /\
  transform_closes_on_every_path = true /\ mutex_unlock_closes = true.
Proof. exact api_closes_on_every_path. Qed.
Print Assumptions C06_api_closes_on_every_path.


(* ---- fifth wave: the objects a process holds, over histories (Handles.v).  One process makes
   any sequence of OpenFile / Close (also repeated) / drop-the-reference / garbage collection /
   MutexAt / Lock / unlock-function calls; descriptor numbers are reused after close(2). *)

(* the facts about the Go objects the handle model rests on, regenerated from the source: Close
   checks and sets f.closed before closeFile; OpenFile hands out a File it has just allocated; the
   unlock function is exactly mu.mu.Unlock(); f.Close(); mu.mu.Lock() follows the locked open *)
Theorem C06_handle_objects_as_modelled :
  close_checks_closed_first = true /\ openfile_fresh_file = true /\
  mutex_unlock_body_plain = true /\ mutex_inner_lock_after_open = true.
Proof. exact handle_objects_as_modelled. Qed.
Print Assumptions C06_handle_objects_as_modelled.

(* the invariant (descriptors, lock-table entries and unclosed Files correspond one to one)
   holds in every state the process can reach *)
Theorem C06_handle_invariant_reachable : forall f evs, hinv (hrun (hinit f) evs).
Proof. exact hinv_reachable. Qed.
Print Assumptions C06_handle_invariant_reachable.

(* held from the return of the call until Close / the unlock function is CALLED — not until the
   next garbage collection, not until somebody closes a stale File with the same descriptor
   number, not until the reference is dropped: over any history without that call *)
Theorem C06_handle_held_until_close : forall s evs h f,
  hinv s -> nth_error (h_files s) h = Some f -> open_handle f = true ->
  ~ In (HClose h) evs -> ~ In (HMUnlock h) evs ->
  exists f', nth_error (h_files (hrun s evs)) h = Some f' /\ core f' = core f /\
    isopen (fds (h_os (hrun s evs)) (hf_fd f)) = true /\
    holds (hf_fd f) (hf_kind f) (ltab (h_os (hrun s evs)) (hf_ino f)) = true.
Proof. exact handle_held_until_close. Qed.
Print Assumptions C06_handle_held_until_close.

(* ... and released by that call *)
Theorem C06_handle_close_releases : forall s h f,
  hinv s -> h_stuck s = false -> h_panic s = false ->
  nth_error (h_files s) h = Some f -> open_handle f = true -> hf_mutex f = None ->
  let s' := hexec s (HClose h) in
  hresult s (HClose h) s' = HOk /\
  fds (h_os s') (hf_fd f) = None /\
  (forall k, holds (hf_fd f) k (ltab (h_os s') (hf_ino f)) = false) /\
  nth_error (h_files s') h = Some (set_closed f).
Proof. exact handle_close_releases. Qed.
Print Assumptions C06_handle_close_releases.

(* a repeated Close answers with an error and changes NOTHING, whoever owns the number now *)
Theorem C06_handle_second_close_noop : forall s h f,
  nth_error (h_files s) h = Some f -> hf_closed f = true ->
  hexec s (HClose h) = s /\
  (h_stuck s = false -> h_panic s = false -> hf_ok f = true -> hresult s (HClose h) s = HErr).
Proof. exact handle_second_close_noop. Qed.
Print Assumptions C06_handle_second_close_noop.

(* a garbage collection does nothing as long as the caller references what it has not closed *)
Theorem C06_gc_harmless : forall s,
  (forall f, In f (h_files s) -> open_handle f = true -> hf_live f = true) -> hexec s HGC = s.
Proof. exact gc_harmless. Qed.
Print Assumptions C06_gc_harmless.

(* two Files of one process between return and Close on one file are both read-locked *)
Theorem C06_handles_exclusion : forall s h1 h2 f1 f2,
  hinv s -> nth_error (h_files s) h1 = Some f1 -> nth_error (h_files s) h2 = Some f2 ->
  open_handle f1 = true -> open_handle f2 = true -> h1 <> h2 -> hf_ino f1 = hf_ino f2 ->
  hf_kind f1 = LSh /\ hf_kind f2 = LSh.
Proof. exact handles_exclusion. Qed.
Print Assumptions C06_handles_exclusion.

(* what another process's non-blocking probe finds is exactly what the Files between return and
   Close say: free iff there is none on the file, write-locked iff one of them is a write-locker *)
Theorem C06_probe_reads_handles : forall s i, hinv s ->
  (hprobe s i = PFree <->
     forall h f, nth_error (h_files s) h = Some f -> open_handle f = true -> hf_ino f <> i) /\
  (hprobe s i = PExcl <->
     exists h f, nth_error (h_files s) h = Some f /\ open_handle f = true /\ hf_ino f = i /\ hf_kind f = LEx).
Proof. exact probe_reads_handles. Qed.
Print Assumptions C06_probe_reads_handles.

(* one Mutex VALUE locked and unlocked n times, for every n: each Lock is granted at once and the
   file is write-locked, each unlock function frees it, and the Mutex is ready again *)
Theorem C06_mutex_reusable : forall n s m i, mutex_ready s m i ->
  mutex_ready (hrun s (cycles m (length (h_files s)) n)) m i /\
  seen s (cycles m (length (h_files s)) n) i = cycle_view n.
Proof. exact mutex_reusable. Qed.
Print Assumptions C06_mutex_reusable.

(* ------------------------------------------------------------------------------------------------
   The SOURCE, translated.  harness/go2coq (world mode) translates lockedfile.go,
   lockedfile_filelock.go, mutex.go and internal/filelock/filelock.go + filelock_unix.go on every
   run into Gen/LockedFileSrc.v: Gallina functions over an ABSTRACT operating system (a record
   [os_ops] of uninterpreted operations on an abstract world).  LockedFile/SrcFacts.v proves them
   equal, for every such record, every world, every argument and every fuel >= 1, to the
   hand-written program terms of this file's theorems run by the interpreter SrcLib.run_prog
   over the same operations: same operations, same order, same arguments, same control flow on
   every result, same returned value.  Premises (SrcLib.v): flock(LOCK_UN) never reports EINTR;
   what fstat says about "regular file" is the static attribute [a] of the model (a := default_attr
   gives the plain model).  LockedFile/SrcTheorems.v runs the translated functions on the model's
   own operating system (SrcModel.model_ops) and restates the release theorems on them. *)
From Coq Require Import ZArith.
From GI Require Import Lib.GoSem Lib.GoSemWorld.
From GI Require Import LockedFile.LockedFileA LockedFile.Policy LockedFile.PolicyCall.
From GI Require Import LockedFile.SrcLib Gen.LockedFileSrc LockedFile.SrcFacts LockedFile.SrcModel LockedFile.SrcTheorems.
Import GoNotations.
Local Open Scope go_scope.

(* filelock.lock: flock is repeated while it reports EINTR, and only then; an error is wrapped in
   a PathError; the model's Retry (OFlock how) is that loop *)
Theorem C06_source_lock_retries_eintr : forall (OS : os_ops) fuel w f how,
  fl_lock OS fuel w f how =
  (x <- flock_retry OS fuel f how w ;; Ok (fst x, lock_err OS how f (snd x))).
Proof. exact lock_eq. Qed.
Print Assumptions C06_source_lock_retries_eintr.

Theorem C06_source_retry_is_the_loop : forall (OS : os_ops) path perm n how f w,
  retry_op OS path perm n (OFlock how) f w =
  (x <- flock_retry OS n f (Z.of_N how) w ;;
   Ok (fst x, f, res_of_err (snd x), lock_err OS (Z.of_N how) f (snd x))).
Proof. exact retry_flock. Qed.
Print Assumptions C06_source_retry_is_the_loop.

(* closeFile: unlock, then close (cl_w1/cl_w2: the worlds after the two calls), the unlock's error
   first; the model's close_prog performs exactly these two operations *)
Theorem C06_source_closeFile : forall OS : os_ops, unlock_no_eintr OS ->
  forall fuel w f, 1 <= fuel ->
  lf_closeFile OS fuel w f = Ok (cl_w2 OS f w, cl_err OS f w).
Proof. exact closeFile_eq. Qed.
Print Assumptions C06_source_closeFile.

Theorem C06_source_close_prog : forall OS : os_ops, unlock_no_eintr OS ->
  forall path perm fuel k f w h e,
  run_prog OS path perm fuel (close_prog k) f w h e =
  run_prog OS path perm fuel k f (cl_w2 OS f w)
    ((OClose, res_of_err (cl_e2 OS f w)) :: (OFlock filelock_unlock_arg, res_of_err (cl_e1 OS f w)) :: h)
    (first_err (first_err e (lock_err OS (Z.of_N filelock_unlock_arg) f (cl_e1 OS f w))) (cl_e2 OS f w)).
Proof. exact run_close. Qed.
Print Assumptions C06_source_close_prog.

(* openFile = the model's open_file_prog (here with the continuation that ends where openFile
   returns): world, handle (nil on failure) and error value (that of the first failing
   operation) are read off the run *)
Theorem C06_source_openFile : forall OS : os_ops, unlock_no_eintr OS ->
  forall a : attr, stat_static OS (a_regular a) ->
  forall fuel w name flags perm f0 h, 1 <= fuel ->
  lf_openFile OS fuel w name (Z.of_N flags) perm =
  (x <- run_prog OS name perm fuel (open_only_a a flags) f0 w h WNil ;; Ok (open_out OS x)).
Proof. exact openFile_eq. Qed.
Print Assumptions C06_source_openFile.

(* the operations openFile performs, oldest first: no open carries O_TRUNC, and a truncation comes
   only after the lock request chosen by openFile's switch has been granted *)
Theorem C06_source_no_truncate_before_lock : forall (OS : os_ops) (a : attr),
  stat_static OS (a_regular a) ->
  forall path perm fuel flags f0 w w' f' h' e' r,
  run_prog OS path perm fuel (open_only_a a flags) f0 w [] WNil = Ok (w', f', h', e', r) ->
  hist_ok (lock_arg_of_flags flags) false (rev h') = true.
Proof. exact open_hist_ok. Qed.
Print Assumptions C06_source_no_truncate_before_lock.

(* the model's open_file_prog with ANY continuation: openFile, then the continuation *)
Theorem C06_source_open_then : forall (OS : os_ops) (a : attr),
  stat_static OS (a_regular a) ->
  forall path perm fuel flags k f0 w h e,
  run_prog OS path perm fuel (open_file_prog_a a flags k) f0 w h e =
  (x <- run_prog OS path perm fuel (open_only_a a flags) f0 w h e ;;
   match x with (w', f', h', e', r) => run_prog OS path perm fuel (k (result_is_ok r)) f' w' h' e' end).
Proof. exact run_open_k. Qed.
Print Assumptions C06_source_open_then.

(* OpenFile: a new File (closed = false) around the handle, or nil and the error *)
Theorem C06_source_OpenFile : forall OS : os_ops, unlock_no_eintr OS ->
  forall a : attr, stat_static OS (a_regular a) ->
  forall fuel w name flags perm f0 h, 1 <= fuel ->
  lf_OpenFile OS fuel w name (Z.of_N flags) perm =
  (x <- run_prog OS name perm fuel (open_only_a a flags) f0 w h WNil ;; Ok (OpenFile_out OS x)).
Proof. exact OpenFile_eq. Qed.
Print Assumptions C06_source_OpenFile.

Theorem C06_source_Open : forall OS : os_ops, unlock_no_eintr OS ->
  forall a : attr, stat_static OS (a_regular a) ->
  forall fuel w name f0 h, 1 <= fuel ->
  lf_Open OS fuel w name =
  (x <- run_prog OS name 0 fuel (open_only_a a open_flags) f0 w h WNil ;; Ok (OpenFile_out OS x)).
Proof. exact Open_eq. Qed.
Print Assumptions C06_source_Open.

Theorem C06_source_Create : forall OS : os_ops, unlock_no_eintr OS ->
  forall a : attr, stat_static OS (a_regular a) ->
  forall fuel w name f0 h, 1 <= fuel ->
  lf_Create OS fuel w name =
  (x <- run_prog OS name 438 fuel (open_only_a a create_flags) f0 w h WNil ;; Ok (OpenFile_out OS x)).
Proof. exact Create_eq. Qed.
Print Assumptions C06_source_Create.

Theorem C06_source_Edit : forall OS : os_ops, unlock_no_eintr OS ->
  forall a : attr, stat_static OS (a_regular a) ->
  forall fuel w name f0 h, 1 <= fuel ->
  lf_Edit OS fuel w name =
  (x <- run_prog OS name 438 fuel (open_only_a a edit_flags) f0 w h WNil ;; Ok (OpenFile_out OS x)).
Proof. exact Edit_eq. Qed.
Print Assumptions C06_source_Edit.

(* (File).Close: the two operations of closeFile and the flag; a second Close performs no
   operation and reports an error *)
Theorem C06_source_File_Close : forall OS : os_ops, unlock_no_eintr OS ->
  forall fuel w f, 1 <= fuel ->
  lf_File_Close OS fuel w (file_of OS f false) = Ok (cl_w2 OS f w, file_of OS f true, cl_err OS f w).
Proof. exact File_Close_eq. Qed.
Print Assumptions C06_source_File_Close.

Theorem C06_source_second_Close : forall (OS : os_ops) fuel w f,
  exists e, lf_File_Close OS fuel w (file_of OS f true) = Ok (w, file_of OS f true, e) /\
            werr_is_nil e = false.
Proof. exact File_Close_closed. Qed.
Print Assumptions C06_source_second_Close.

(* Mutex.Lock followed by the unlock function it returned = the model's CMutex program; the
   Mutex value is as before; an empty Path panics *)
Theorem C06_source_Mutex : forall OS : os_ops, unlock_no_eintr OS ->
  forall a : attr, stat_static OS (a_regular a) ->
  forall fuel w (mu : lf_Mutex) f0 h, 1 <= fuel ->
  lf_Mutex_Path mu <> [] -> lf_Mutex_mu mu = false ->
  mutex_cycle OS fuel w mu =
  (x <- run_prog OS (lf_Mutex_Path mu) 438 fuel (prog_of_call_a a CMutex) f0 w h WNil ;;
   match x with (w', _, _, _, r) => Ok (w', mu, r) end).
Proof. exact Mutex_eq. Qed.
Print Assumptions C06_source_Mutex.

Theorem C06_source_Mutex_empty_path_panics : forall (OS : os_ops) fuel w (mu : lf_Mutex),
  lf_Mutex_Path mu = [] -> lf_Mutex_Lock OS fuel w mu = Panic.
Proof. exact Mutex_Lock_empty_path. Qed.
Print Assumptions C06_source_Mutex_empty_path_panics.

(* the translated functions run on the MODEL's operating system under any fault policy pol' (over
   the history of the operations really made), from any OS state in which the caller has no
   descriptor (others may hold locks): if the call returns, the caller holds no descriptor and no
   lock on the file; OutOfFuel = the lock request blocks for ever; never a panic *)
Theorem C06_source_read_released : forall i c pol' s fuel name, 1 <= fuel ->
  fds s c = None -> locked c (ltab s i) = None -> refs s c = 0 ->
  match lf_Read (model_ops i c pol') fuel (s, []) name with
  | Ok (w', _, _) => released i c (fst w')
  | OutOfFuel => True
  | Panic => False
  end.
Proof. exact source_read_released. Qed.
Print Assumptions C06_source_read_released.

Theorem C06_source_write_released : forall i c pol' s fuel name content perm, 1 <= fuel ->
  fds s c = None -> locked c (ltab s i) = None -> refs s c = 0 ->
  match lf_Write (model_ops i c pol') fuel (s, []) name content perm with
  | Ok (w', _) => released i c (fst w')
  | OutOfFuel => True
  | Panic => False
  end.
Proof. exact source_write_released. Qed.
Print Assumptions C06_source_write_released.

Theorem C06_source_transform_released : forall i c pol' s fuel name t, 1 <= fuel ->
  fds s c = None -> locked c (ltab s i) = None -> refs s c = 0 ->
  match lf_Transform (model_ops i c pol') fuel (s, []) name t with
  | Ok (w', _) => released i c (fst w')
  | OutOfFuel => True
  | Panic => False
  end.
Proof. exact source_transform_released. Qed.
Print Assumptions C06_source_transform_released.

Theorem C06_source_mutex_released : forall i c pol' s fuel (mu : lf_Mutex), 1 <= fuel ->
  lf_Mutex_Path mu <> [] -> lf_Mutex_mu mu = false ->
  fds s c = None -> locked c (ltab s i) = None -> refs s c = 0 ->
  match mutex_cycle (model_ops i c pol') fuel (s, []) mu with
  | Ok (w', mu', _) => released i c (fst w') /\ mu' = mu
  | OutOfFuel => True
  | Panic => False
  end.
Proof. exact source_mutex_released. Qed.
Print Assumptions C06_source_mutex_released.

(* the premises of the equalities are satisfiable: the model's operating system *)
Theorem C06_source_premises_hold_on_model : forall i c pol',
  unlock_no_eintr (model_ops i c pol') /\ stat_static (model_ops i c pol') (a_regular default_attr).
Proof. exact (fun i c pol' => conj (model_unlock_no_eintr i c pol') (model_stat_static i c pol')). Qed.
Print Assumptions C06_source_premises_hold_on_model.


(* ---- seventh wave: callbacks that do not return.  Transform runs the caller's t under the write
   lock; t may return, fail, panic (recovered above Transform) or call runtime.Goexit.  Go runs
   deferred calls in all four cases and the statements after t's call only in the first two
   (after_callback: that rule, trusted reading of the language specification); the source DEFERS
   the Close in Transform and Read (regenerated from the AST on every run) ... *)
Theorem C06_close_is_deferred :
  transform_defers_close = true /\ read_defers_close = true.
Proof. exact close_is_deferred. Qed.
Print Assumptions C06_close_is_deferred.

(* ... hence, however the callback ends, the history of the process continues with the Close of
   Transform's handle: descriptor closed, no lock of any kind left on the file (the runner's
   holdseq `call` steps make such calls for real and compare the probe of another process with
   the handle model run over exactly these events) *)
Theorem C06_transform_releases_however_callback_ends : forall s h f e,
  hinv s -> h_stuck s = false -> h_panic s = false ->
  nth_error (h_files s) h = Some f -> open_handle f = true -> hf_mutex f = None ->
  let s' := hrun s (after_callback transform_defers_close h e) in
  fds (h_os s') (hf_fd f) = None /\
  (forall k, holds (hf_fd f) k (ltab (h_os s') (hf_ino f)) = false) /\
  nth_error (h_files s') h = Some (set_closed f).
Proof. exact transform_releases_however_callback_ends. Qed.
Print Assumptions C06_transform_releases_however_callback_ends.

(* C02 — testscript word splitting, quoting and variable expansion are exact.
   This file contains only the property theorems, each closed by [exact] of a lemma proved in
   TsParse/TsParseFacts.v, TsEnvFacts.v, TsRegexFacts.v, with Print Assumptions beneath it.
   Model: TsParse/TsParse.v; literals: Gen/TsParseConsts.v (regenerated from the source). *)
From Coq Require Import List NArith.
From Coq.Strings Require Import Byte.
From GI Require Import Lib.Bytes Gen.TsParseConsts TsParse.TsParse TsParse.TsSpec TsParse.TsShape
  TsParse.TsHolds TsParse.TsParseFacts TsParse.TsEnvFacts TsParse.TsRegexFacts TsParse.TsCmpFacts
  TsParse.TsHoldsFacts TsParse.TsShapeFacts TsParse.TsUtf8Facts TsParse.TsFold TsParse.TsFoldFacts.
Import ListNotations.

(* any list of words survives quoting: nothing inside quotes is split, expanded or a comment
   (the empty word and words the tokenizer would otherwise drop included) *)
Theorem C02_parse_quote_words : forall (st : ts_env) (ws : list (list byte)),
  ts_parse st (join_sp (map sq ws)) = Some ws.
Proof. exact parse_quote_words. Qed.
Print Assumptions C02_parse_quote_words.

(* ... and words without a newline give one script line *)
Theorem C02_quoted_line_single : forall ws : list (list byte),
  Forall (fun w => ~ In NL w) ws -> ~ In NL (join_sp (map sq ws)).
Proof. exact quoted_line_single. Qed.
Print Assumptions C02_quoted_line_single.

(* the characters named by the property: space and tab separate words, # starts a comment, ' quotes,
   $ { } expand, @R selects the regular expression, = separates KEY and VALUE, exec overrides PWD *)
Theorem C02_syntax_characters :
  blank_byte SP = true /\ blank_byte TAB = true /\
  is_comment x23 = true /\ ts_quote = x27 /\ dollar = x24 /\ lbrace = x7b /\ rbrace = x7d /\
  ts_regex_suffix = [x40; x52] /\ ts_env_sep = x3d /\ pwd_key = [x50; x57; x44].
Proof. exact syntax_characters. Qed.
Print Assumptions C02_syntax_characters.

(* ordinary words separated by arbitrary non-empty runs of blanks parse to themselves *)
Theorem C02_parse_plain_split : forall st lead w0 rest trail,
  blank_run lead -> plain_word w0 ->
  Forall (fun p => fst p <> [] /\ blank_run (fst p) /\ plain_word (snd p)) rest ->
  blank_run trail ->
  ts_parse st (lead ++ w0 ++ join_runs rest ++ trail) = Some (w0 :: map snd rest).
Proof. exact parse_plain_split. Qed.
Print Assumptions C02_parse_plain_split.

Theorem C02_parse_blank_line : forall st s, blank_run s -> ts_parse st s = Some [].
Proof. exact parse_blank_line. Qed.
Print Assumptions C02_parse_blank_line.

(* a comment character after an even number of quote characters ends the line *)
Theorem C02_parse_comment : forall st l h r,
  is_comment h = true -> in_quote_after l false = false ->
  ts_parse st (l ++ h :: r) = ts_parse st l.
Proof. exact parse_comment. Qed.
Print Assumptions C02_parse_comment.

(* $k is replaced by the current value, once: no re-splitting, no re-expansion, for any value *)
Theorem C02_parse_expand_once : forall st cmd pre k post v,
  plain_word cmd -> plain_chunk pre -> plain_chunk post -> no_alnum_head post ->
  valid_name k -> getenv st k = v ->
  ts_parse st (cmd ++ SP :: pre ++ dollar :: k ++ post) = Some [cmd; pre ++ v ++ post].
Proof. exact parse_expand_once. Qed.
Print Assumptions C02_parse_expand_once.

Theorem C02_parse_expand_once_brace : forall st cmd pre k post v,
  plain_word cmd -> plain_chunk pre -> plain_chunk post ->
  brace_word k -> strip_suffix ts_regex_suffix k = None -> getenv st k = v ->
  ts_parse st (cmd ++ SP :: pre ++ dollar :: lbrace :: k ++ rbrace :: post)
  = Some [cmd; pre ++ v ++ post].
Proof. exact parse_expand_once_brace. Qed.
Print Assumptions C02_parse_expand_once_brace.

Theorem C02_parse_expand_regex : forall st cmd pre k post v,
  plain_word cmd -> plain_chunk pre -> plain_chunk post ->
  brace_word k -> getenv st k = v ->
  ts_parse st (cmd ++ SP :: pre ++ dollar :: lbrace :: (k ++ ts_regex_suffix) ++ rbrace :: post)
  = Some [cmd; pre ++ quote_meta v ++ post].
Proof. exact parse_expand_regex. Qed.
Print Assumptions C02_parse_expand_regex.

(* after any sequence of assignments the value of k is that of the last assignment to k *)
Theorem C02_latest_wins : forall st pre k v post,
  no_sep k -> Forall (not_assign k) post ->
  getenv (cmd_env (pre ++ (k ++ ts_env_sep :: v) :: post) st) k = v.
Proof. exact latest_wins. Qed.
Print Assumptions C02_latest_wins.

Theorem C02_unassigned_keeps : forall args st k,
  Forall (not_assign k) args -> getenv (cmd_env args st) k = getenv st k.
Proof. exact unassigned_keeps. Qed.
Print Assumptions C02_unassigned_keeps.

(* a sequence of env commands is one env command with all the arguments *)
Theorem C02_env_commands_compose : forall cmds st,
  fold_left (fun s args => cmd_env args s) cmds st = cmd_env (concat cmds) st.
Proof. exact cmd_env_seq. Qed.
Print Assumptions C02_env_commands_compose.

(* the lookup map used for expansion agrees with the list handed to children, in every state
   reached from any initial variables by any env commands *)
Theorem C02_envmap_agrees_with_list : forall vars cmds,
  consistent (fold_left (fun s args => cmd_env args s) cmds (setup_env vars)).
Proof. exact reachable_consistent. Qed.
Print Assumptions C02_envmap_agrees_with_list.

(* executed programs see the same value as the script, for every name but PWD *)
Theorem C02_child_env_agrees : forall st cd k l,
  consistent st -> regular k -> k <> pwd_key ->
  child_env st cd = Some l ->
  or_empty (child_lookup k l) = getenv st k.
Proof. exact child_env_agrees. Qed.
Print Assumptions C02_child_env_agrees.

Theorem C02_child_env_agrees_reachable : forall vars cmds cd k l,
  regular k -> k <> pwd_key ->
  child_env (fold_left (fun s args => cmd_env args s) cmds (setup_env vars)) cd = Some l ->
  or_empty (child_lookup k l) = getenv (fold_left (fun s args => cmd_env args s) cmds (setup_env vars)) k.
Proof. exact child_env_agrees_reachable. Qed.
Print Assumptions C02_child_env_agrees_reachable.

(* ... set or unset alike: the child finds the last binding of the list, or nothing *)
Theorem C02_child_sees_list : forall st cd k l,
  regular k -> k <> pwd_key -> child_env st cd = Some l ->
  child_lookup k l = list_get (env_list st) k.
Proof. exact child_sees_list. Qed.
Print Assumptions C02_child_sees_list.

Theorem C02_child_pwd : forall st cd l,
  child_env st cd = Some l -> child_lookup pwd_key l = Some cd.
Proof. exact child_pwd. Qed.
Print Assumptions C02_child_pwd.

(* the child is started exactly when no entry holds a NUL byte *)
Theorem C02_child_env_defined : forall st cd,
  (exists l, child_env st cd = Some l) <->
  (forall e, In e (env_list st) -> ~ In nul_byte e) /\ ~ In nul_byte cd.
Proof. exact child_env_defined. Qed.
Print Assumptions C02_child_env_defined.

(* QuoteMeta of a valid UTF-8 value is a literal regular expression denoting exactly the value *)
Theorem C02_quote_meta_literal : forall v : list byte,
  utf8_ok v = true -> re_literal (quote_meta v) = Some v.
Proof. exact quote_meta_literal. Qed.
Print Assumptions C02_quote_meta_literal.

Theorem C02_expand_regex_denotes : forall st cmd k v,
  plain_word cmd -> brace_word k -> getenv st k = v -> utf8_ok v = true ->
  exists p,
    ts_parse st (cmd ++ SP :: dollar :: lbrace :: (k ++ ts_regex_suffix) ++ [rbrace]) = Some [cmd; p]
    /\ re_literal p = Some v.
Proof. exact expand_regex_denotes. Qed.
Print Assumptions C02_expand_regex_denotes.

(* ---- second wave: cmpenv / cmp, env chains, source shape, executable form *)

(* the control structure of parse, expand and doCmdCmp in the current source is the one the model
   was written against (structural fingerprints, see gen_tsparse_shape.go and TsShape.v) *)
Theorem C02_source_shapes_current :
  ts_parse_shape = parse_go_shape /\ ts_expand_shape = expand_shape /\ ts_cmp_shape = cmp_shape.
Proof. exact source_shapes_current. Qed.
Print Assumptions C02_source_shapes_current.

(* expansion of a text that is not tokenized (cmpenv's second file): the value is inserted as it
   is and scanning resumes after the reference *)
Theorem C02_expand_text_var : forall st pre k post,
  no_dollar pre -> valid_name k -> no_alnum_head post ->
  expand st (pre ++ dollar :: k ++ post) = pre ++ getenv st k ++ expand st post.
Proof. exact expand_text_var. Qed.
Print Assumptions C02_expand_text_var.

Theorem C02_expand_text_brace : forall st pre k post,
  no_dollar pre -> brace_ok k -> strip_suffix ts_regex_suffix k = None ->
  expand st (pre ++ dollar :: lbrace :: k ++ rbrace :: post) = pre ++ getenv st k ++ expand st post.
Proof. exact expand_text_brace. Qed.
Print Assumptions C02_expand_text_brace.

Theorem C02_expand_text_regex : forall st pre k post,
  no_dollar pre -> brace_ok k ->
  expand st (pre ++ dollar :: lbrace :: (k ++ ts_regex_suffix) ++ rbrace :: post)
  = pre ++ quote_meta (getenv st k) ++ expand st post.
Proof. exact expand_text_regex. Qed.
Print Assumptions C02_expand_text_regex.

(* cmpenv: the second file goes through the expander exactly once, the first file not at all *)
Theorem C02_cmpenv_expands_once : forall st name1 name2 text1 text2,
  name1 <> name2 ->
  (do_cmd_cmp st false true name1 name2 text1 text2 = true <-> text1 = expand st text2).
Proof. exact cmpenv_expands_once. Qed.
Print Assumptions C02_cmpenv_expands_once.

Theorem C02_cmpenv_value_not_reexpanded : forall st name1 name2 pre k post v,
  name1 <> name2 -> no_dollar pre -> no_dollar post -> no_alnum_head post ->
  valid_name k -> getenv st k = v ->
  do_cmd_cmp st false true name1 name2 (pre ++ v ++ post) (pre ++ dollar :: k ++ post) = true.
Proof. exact cmpenv_value_not_reexpanded. Qed.
Print Assumptions C02_cmpenv_value_not_reexpanded.

(* cmp expands neither file *)
Theorem C02_cmp_no_expand : forall st name1 name2 text1 text2,
  name1 <> name2 ->
  (do_cmd_cmp st false false name1 name2 text1 text2 = true <-> text1 = text2).
Proof. exact cmp_no_expand. Qed.
Print Assumptions C02_cmp_no_expand.

Theorem C02_cmp_negated : forall st env name1 name2 text1 text2,
  name1 <> name2 ->
  do_cmd_cmp st true env name1 name2 text1 text2 = negb (do_cmd_cmp st false env name1 name2 text1 text2).
Proof. exact cmp_negated. Qed.
Print Assumptions C02_cmp_negated.

(* env k=$o takes the value of o when the line runs; later assignments to o do not reach k *)
Theorem C02_env_copy_at_assignment : forall st k o,
  plain_chunk k -> no_sep k -> valid_name o ->
  getenv (fst (ts_step st (ts_env_cmd ++ SP :: k ++ ts_env_sep :: dollar :: o))) k = getenv st o.
Proof. exact env_copy_at_assignment. Qed.
Print Assumptions C02_env_copy_at_assignment.

Theorem C02_env_chain_snapshot : forall st k o later,
  plain_chunk k -> no_sep k -> valid_name o -> Forall (not_assign k) later ->
  getenv (cmd_env later (fst (ts_step st (ts_env_cmd ++ SP :: k ++ ts_env_sep :: dollar :: o)))) k
  = getenv st o.
Proof. exact env_chain_snapshot. Qed.
Print Assumptions C02_env_chain_snapshot.

(* the executable boolean form of the statements (extracted, asked by the runner for every case)
   is true on every state, directory, line, name and value *)
Theorem C02_holds_on : forall st cd line k v, c02_holds_on st cd line k v = true.
Proof. exact c02_holds_on_true. Qed.
Print Assumptions C02_holds_on.

(* the UTF-8 automaton used by re_literal is the shared model of unicode/utf8.Valid *)
Theorem C02_utf8_ok_is_utf8_valid : forall d : list byte, utf8_ok d = utf8_valid d.
Proof. exact utf8_ok_is_utf8_valid. Qed.
Print Assumptions C02_utf8_ok_is_utf8_valid.

(* envvarname as a parameter (identity here, ToLower on Windows): the latest assignment to any
   spelling of a name wins, the map agrees with the list up to folding; the model above is the
   identity instance *)
Theorem C02_latest_wins_fold : forall (fold : list byte -> list byte) st pre k k0 v post,
  no_sep k -> fold k = fold k0 -> Forall (not_assign_f fold k0) post ->
  getenv_f fold (cmd_env_f fold (pre ++ (k ++ ts_env_sep :: v) :: post) st) k0 = v.
Proof. exact latest_wins_f. Qed.
Print Assumptions C02_latest_wins_fold.

Theorem C02_envmap_agrees_with_list_fold : forall (fold : list byte -> list byte) vars args,
  consistent_f fold (cmd_env_f fold args (setup_env_f fold vars)).
Proof. exact reachable_consistent_f. Qed.
Print Assumptions C02_envmap_agrees_with_list_fold.

Theorem C02_fold_id_is_model : forall st k v vars args,
  getenv_f id_fold st k = getenv st k /\
  setenv_f id_fold k v st = setenv k v st /\
  setup_env_f id_fold vars = setup_env vars /\
  cmd_env_f id_fold args st = cmd_env args st.
Proof. exact fold_id_is_model. Qed.
Print Assumptions C02_fold_id_is_model.

(* C02 — testscript word splitting, quoting and variable expansion are exact.
   This file contains only the property theorems, each closed by [exact] of a lemma proved in
   TsParse/TsParseFacts.v, TsEnvFacts.v, TsRegexFacts.v, with Print Assumptions beneath it.
   Model: TsParse/TsParse.v; literals: Gen/TsParseConsts.v (regenerated from the source). *)
From Coq Require Import List NArith.
From Coq.Strings Require Import Byte.
From GI Require Import Lib.GoSem Lib.GoSemState.
From GI Require Import Lib.Bytes Gen.TsParseConsts TsParse.TsParse TsParse.TsSpec TsParse.TsShape
  TsParse.TsHolds TsParse.TsParseFacts TsParse.TsEnvFacts TsParse.TsRegexFacts TsParse.TsCmpFacts
  TsParse.TsHoldsFacts TsParse.TsShapeFacts TsParse.TsUtf8Facts TsParse.TsFold TsParse.TsFoldFacts
  TsParse.TsScript TsParse.TsScriptFacts.
From GI Require Import Gen.TsParseSrc TsParse.SrcLib TsParse.SrcLibFacts TsParse.SrcFacts TsParse.SrcParseFacts
  TsParse.SrcCmdEnvFacts TsParse.SrcLaws.
Import ListNotations.

(* any list of words survives quoting: nothing inside quotes is split, expanded or a comment
   (the empty word and words the tokenizer would otherwise drop included) *)
Theorem C02_parse_quote_words : forall (st : ts_env) (ws : list (list byte)),
  ts_parse st (join_sp (map sq ws)) = Some ws.
Proof. exact parse_quote_words. Qed.
Print Assumptions C02_parse_quote_words.

(* ... and words without a newline give one script line *)
Theorem C02_quoted_line_single : forall ws : list (list byte),
  Forall (fun w => ~ In NL w) ws -> ~ In NL (join_sp (map sq ws)).
Proof. exact quoted_line_single. Qed.
Print Assumptions C02_quoted_line_single.

(* the characters named by the property: space and tab separate words, # starts a comment, ' quotes,
   $ { } expand, @R selects the regular expression, = separates KEY and VALUE, exec overrides PWD *)
Theorem C02_syntax_characters :
  blank_byte SP = true /\ blank_byte TAB = true /\
  is_comment x23 = true /\ ts_quote = x27 /\ dollar = x24 /\ lbrace = x7b /\ rbrace = x7d /\
  ts_regex_suffix = [x40; x52] /\ ts_env_sep = x3d /\ pwd_key = [x50; x57; x44].
Proof. exact syntax_characters. Qed.
Print Assumptions C02_syntax_characters.

(* ordinary words separated by arbitrary non-empty runs of blanks parse to themselves *)
Theorem C02_parse_plain_split : forall st lead w0 rest trail,
  blank_run lead -> plain_word w0 ->
  Forall (fun p => fst p <> [] /\ blank_run (fst p) /\ plain_word (snd p)) rest ->
  blank_run trail ->
  ts_parse st (lead ++ w0 ++ join_runs rest ++ trail) = Some (w0 :: map snd rest).
Proof. exact parse_plain_split. Qed.
Print Assumptions C02_parse_plain_split.

Theorem C02_parse_blank_line : forall st s, blank_run s -> ts_parse st s = Some [].
Proof. exact parse_blank_line. Qed.
Print Assumptions C02_parse_blank_line.

(* a comment character after an even number of quote characters ends the line *)
Theorem C02_parse_comment : forall st l h r,
  is_comment h = true -> in_quote_after l false = false ->
  ts_parse st (l ++ h :: r) = ts_parse st l.
Proof. exact parse_comment. Qed.
Print Assumptions C02_parse_comment.

(* $k is replaced by the current value, once: no re-splitting, no re-expansion, for any value *)
Theorem C02_parse_expand_once : forall st cmd pre k post v,
  plain_word cmd -> plain_chunk pre -> plain_chunk post -> no_alnum_head post ->
  valid_name k -> getenv st k = v ->
  ts_parse st (cmd ++ SP :: pre ++ dollar :: k ++ post) = Some [cmd; pre ++ v ++ post].
Proof. exact parse_expand_once. Qed.
Print Assumptions C02_parse_expand_once.

Theorem C02_parse_expand_once_brace : forall st cmd pre k post v,
  plain_word cmd -> plain_chunk pre -> plain_chunk post ->
  brace_word k -> strip_suffix ts_regex_suffix k = None -> getenv st k = v ->
  ts_parse st (cmd ++ SP :: pre ++ dollar :: lbrace :: k ++ rbrace :: post)
  = Some [cmd; pre ++ v ++ post].
Proof. exact parse_expand_once_brace. Qed.
Print Assumptions C02_parse_expand_once_brace.

Theorem C02_parse_expand_regex : forall st cmd pre k post v,
  plain_word cmd -> plain_chunk pre -> plain_chunk post ->
  brace_word k -> getenv st k = v ->
  ts_parse st (cmd ++ SP :: pre ++ dollar :: lbrace :: (k ++ ts_regex_suffix) ++ rbrace :: post)
  = Some [cmd; pre ++ quote_meta v ++ post].
Proof. exact parse_expand_regex. Qed.
Print Assumptions C02_parse_expand_regex.

(* after any sequence of assignments the value of k is that of the last assignment to k *)
Theorem C02_latest_wins : forall st pre k v post,
  no_sep k -> Forall (not_assign k) post ->
  getenv (cmd_env (pre ++ (k ++ ts_env_sep :: v) :: post) st) k = v.
Proof. exact latest_wins. Qed.
Print Assumptions C02_latest_wins.

Theorem C02_unassigned_keeps : forall args st k,
  Forall (not_assign k) args -> getenv (cmd_env args st) k = getenv st k.
Proof. exact unassigned_keeps. Qed.
Print Assumptions C02_unassigned_keeps.

(* a sequence of env commands is one env command with all the arguments *)
Theorem C02_env_commands_compose : forall cmds st,
  fold_left (fun s args => cmd_env args s) cmds st = cmd_env (concat cmds) st.
Proof. exact cmd_env_seq. Qed.
Print Assumptions C02_env_commands_compose.

(* the lookup map used for expansion agrees with the list handed to children, in every state
   reached from any initial variables by any env commands *)
Theorem C02_envmap_agrees_with_list : forall vars cmds,
  consistent (fold_left (fun s args => cmd_env args s) cmds (setup_env vars)).
Proof. exact reachable_consistent. Qed.
Print Assumptions C02_envmap_agrees_with_list.

(* executed programs see the same value as the script, for every name but PWD *)
Theorem C02_child_env_agrees : forall st cd k l,
  consistent st -> regular k -> k <> pwd_key ->
  child_env st cd = Some l ->
  or_empty (child_lookup k l) = getenv st k.
Proof. exact child_env_agrees. Qed.
Print Assumptions C02_child_env_agrees.

Theorem C02_child_env_agrees_reachable : forall vars cmds cd k l,
  regular k -> k <> pwd_key ->
  child_env (fold_left (fun s args => cmd_env args s) cmds (setup_env vars)) cd = Some l ->
  or_empty (child_lookup k l) = getenv (fold_left (fun s args => cmd_env args s) cmds (setup_env vars)) k.
Proof. exact child_env_agrees_reachable. Qed.
Print Assumptions C02_child_env_agrees_reachable.

(* ... set or unset alike: the child finds the last binding of the list, or nothing *)
Theorem C02_child_sees_list : forall st cd k l,
  regular k -> k <> pwd_key -> child_env st cd = Some l ->
  child_lookup k l = list_get (env_list st) k.
Proof. exact child_sees_list. Qed.
Print Assumptions C02_child_sees_list.

Theorem C02_child_pwd : forall st cd l,
  child_env st cd = Some l -> child_lookup pwd_key l = Some cd.
Proof. exact child_pwd. Qed.
Print Assumptions C02_child_pwd.

(* the child is started exactly when no entry holds a NUL byte *)
Theorem C02_child_env_defined : forall st cd,
  (exists l, child_env st cd = Some l) <->
  (forall e, In e (env_list st) -> ~ In nul_byte e) /\ ~ In nul_byte cd.
Proof. exact child_env_defined. Qed.
Print Assumptions C02_child_env_defined.

(* QuoteMeta of a valid UTF-8 value is a literal regular expression denoting exactly the value *)
Theorem C02_quote_meta_literal : forall v : list byte,
  utf8_ok v = true -> re_literal (quote_meta v) = Some v.
Proof. exact quote_meta_literal. Qed.
Print Assumptions C02_quote_meta_literal.

Theorem C02_expand_regex_denotes : forall st cmd k v,
  plain_word cmd -> brace_word k -> getenv st k = v -> utf8_ok v = true ->
  exists p,
    ts_parse st (cmd ++ SP :: dollar :: lbrace :: (k ++ ts_regex_suffix) ++ [rbrace]) = Some [cmd; p]
    /\ re_literal p = Some v.
Proof. exact expand_regex_denotes. Qed.
Print Assumptions C02_expand_regex_denotes.

(* ---- second wave: cmpenv / cmp, env chains, source shape, executable form *)

(* the control structure of parse, expand and doCmdCmp in the current source is the one the model
   was written against (structural fingerprints, see gen_tsparse_shape.go and TsShape.v) *)
Theorem C02_source_shapes_current :
  ts_parse_shape = parse_go_shape /\ ts_expand_shape = expand_shape /\ ts_cmp_shape = cmp_shape.
Proof. exact source_shapes_current. Qed.
Print Assumptions C02_source_shapes_current.

(* expansion of a text that is not tokenized (cmpenv's second file): the value is inserted as it
   is and scanning resumes after the reference *)
Theorem C02_expand_text_var : forall st pre k post,
  no_dollar pre -> valid_name k -> no_alnum_head post ->
  expand st (pre ++ dollar :: k ++ post) = pre ++ getenv st k ++ expand st post.
Proof. exact expand_text_var. Qed.
Print Assumptions C02_expand_text_var.

Theorem C02_expand_text_brace : forall st pre k post,
  no_dollar pre -> brace_ok k -> strip_suffix ts_regex_suffix k = None ->
  expand st (pre ++ dollar :: lbrace :: k ++ rbrace :: post) = pre ++ getenv st k ++ expand st post.
Proof. exact expand_text_brace. Qed.
Print Assumptions C02_expand_text_brace.

Theorem C02_expand_text_regex : forall st pre k post,
  no_dollar pre -> brace_ok k ->
  expand st (pre ++ dollar :: lbrace :: (k ++ ts_regex_suffix) ++ rbrace :: post)
  = pre ++ quote_meta (getenv st k) ++ expand st post.
Proof. exact expand_text_regex. Qed.
Print Assumptions C02_expand_text_regex.

(* cmpenv: the second file goes through the expander exactly once, the first file not at all *)
Theorem C02_cmpenv_expands_once : forall st name1 name2 text1 text2,
  name1 <> name2 ->
  (do_cmd_cmp st false true name1 name2 text1 text2 = true <-> text1 = expand st text2).
Proof. exact cmpenv_expands_once. Qed.
Print Assumptions C02_cmpenv_expands_once.

Theorem C02_cmpenv_value_not_reexpanded : forall st name1 name2 pre k post v,
  name1 <> name2 -> no_dollar pre -> no_dollar post -> no_alnum_head post ->
  valid_name k -> getenv st k = v ->
  do_cmd_cmp st false true name1 name2 (pre ++ v ++ post) (pre ++ dollar :: k ++ post) = true.
Proof. exact cmpenv_value_not_reexpanded. Qed.
Print Assumptions C02_cmpenv_value_not_reexpanded.

(* cmp expands neither file *)
Theorem C02_cmp_no_expand : forall st name1 name2 text1 text2,
  name1 <> name2 ->
  (do_cmd_cmp st false false name1 name2 text1 text2 = true <-> text1 = text2).
Proof. exact cmp_no_expand. Qed.
Print Assumptions C02_cmp_no_expand.

Theorem C02_cmp_negated : forall st env name1 name2 text1 text2,
  name1 <> name2 ->
  do_cmd_cmp st true env name1 name2 text1 text2 = negb (do_cmd_cmp st false env name1 name2 text1 text2).
Proof. exact cmp_negated. Qed.
Print Assumptions C02_cmp_negated.

(* env k=$o takes the value of o when the line runs; later assignments to o do not reach k *)
Theorem C02_env_copy_at_assignment : forall st k o,
  plain_chunk k -> no_sep k -> valid_name o ->
  getenv (fst (ts_step st (ts_env_cmd ++ SP :: k ++ ts_env_sep :: dollar :: o))) k = getenv st o.
Proof. exact env_copy_at_assignment. Qed.
Print Assumptions C02_env_copy_at_assignment.

Theorem C02_env_chain_snapshot : forall st k o later,
  plain_chunk k -> no_sep k -> valid_name o -> Forall (not_assign k) later ->
  getenv (cmd_env later (fst (ts_step st (ts_env_cmd ++ SP :: k ++ ts_env_sep :: dollar :: o)))) k
  = getenv st o.
Proof. exact env_chain_snapshot. Qed.
Print Assumptions C02_env_chain_snapshot.

(* the executable boolean form of the statements (extracted, asked by the runner for every case)
   is true on every state, directory, line, name and value *)
Theorem C02_holds_on : forall st cd line k v, c02_holds_on st cd line k v = true.
Proof. exact c02_holds_on_true. Qed.
Print Assumptions C02_holds_on.

(* the UTF-8 automaton used by re_literal is the shared model of unicode/utf8.Valid *)
Theorem C02_utf8_ok_is_utf8_valid : forall d : list byte, utf8_ok d = utf8_valid d.
Proof. exact utf8_ok_is_utf8_valid. Qed.
Print Assumptions C02_utf8_ok_is_utf8_valid.

(* envvarname as a parameter (identity here, ToLower on Windows): the latest assignment to any
   spelling of a name wins, the map agrees with the list up to folding; the model above is the
   identity instance *)
Theorem C02_latest_wins_fold : forall (fold : list byte -> list byte) st pre k k0 v post,
  no_sep k -> fold k = fold k0 -> Forall (not_assign_f fold k0) post ->
  getenv_f fold (cmd_env_f fold (pre ++ (k ++ ts_env_sep :: v) :: post) st) k0 = v.
Proof. exact latest_wins_f. Qed.
Print Assumptions C02_latest_wins_fold.

Theorem C02_envmap_agrees_with_list_fold : forall (fold : list byte -> list byte) vars args,
  consistent_f fold (cmd_env_f fold args (setup_env_f fold vars)).
Proof. exact reachable_consistent_f. Qed.
Print Assumptions C02_envmap_agrees_with_list_fold.

Theorem C02_fold_id_is_model : forall st k v vars args,
  getenv_f id_fold st k = getenv st k /\
  setenv_f id_fold k v st = setenv k v st /\
  setup_env_f id_fold vars = setup_env vars /\
  cmd_env_f id_fold args st = cmd_env args st.
Proof. exact fold_id_is_model. Qed.
Print Assumptions C02_fold_id_is_model.

(* ---- third wave: the script level — every line of every script, histories of commands *)

(* the line loop of run, cmdEnv, Setenv, Getenv and setEnv in the current source are the ones
   script_lines / run_lines, cmd_env / env_listing, setenv, getenv and setup_env were written against *)
Theorem C02_script_shapes_current :
  ts_runloop_shape = runloop_shape /\ ts_cmdenv_shape = cmdenv_shape /\ ts_setenv_shape = setenv_shape /\
  ts_getenv_shape = getenv_shape /\ ts_setenvall_shape = setenvall_shape.
Proof. exact script_shapes_current. Qed.
Print Assumptions C02_script_shapes_current.

Theorem C02_line_sep_is_nl : ts_line_sep = [NL].
Proof. exact line_sep_is_nl. Qed.
Print Assumptions C02_line_sep_is_nl.

(* every byte of the script belongs to exactly one line, in order; no line is dropped or cut
   whatever its length: the lines written back with their line feeds are the script (plus the
   line feed an unterminated last line lacked) *)
Theorem C02_lines_total : forall s,
  unlines (script_lines s) = s ++ (if open_ended s then [NL] else []).
Proof. exact lines_total. Qed.
Print Assumptions C02_lines_total.

Theorem C02_lines_no_nl : forall s, Forall (fun l => ~ In NL l) (script_lines s).
Proof. exact lines_no_nl. Qed.
Print Assumptions C02_lines_no_nl.

(* a script written line by line is read back as exactly these lines (any bytes but LF, any
   length, CR included), also when the last line has no line feed *)
Theorem C02_lines_of_unlines : forall ls,
  Forall (fun l => ~ In NL l) ls -> script_lines (unlines ls) = ls.
Proof. exact lines_of_unlines. Qed.
Print Assumptions C02_lines_of_unlines.

Theorem C02_lines_of_unlines_open : forall ls l,
  Forall (fun l => ~ In NL l) ls -> l <> [] -> ~ In NL l ->
  script_lines (unlines ls ++ l) = ls ++ [l].
Proof. exact lines_of_unlines_open. Qed.
Print Assumptions C02_lines_of_unlines_open.

(* the splitter that is extracted and run (constant stack) is the one of the statements *)
Theorem C02_script_lines_tr_eq : forall s, script_lines_tr s = script_lines s.
Proof. exact script_lines_tr_eq. Qed.
Print Assumptions C02_script_lines_tr_eq.

(* one tokenizer call per line, in order, each in the environment left by the lines before it *)
Theorem C02_run_script_length : forall st s,
  length (snd (run_script st s)) = length (script_lines s).
Proof. exact run_script_length. Qed.
Print Assumptions C02_run_script_length.

Theorem C02_run_lines_each : forall ls st i l,
  nth_error ls i = Some l ->
  nth_error (snd (run_lines st ls)) i = Some (ts_parse (fst (run_lines st (firstn i ls))) l).
Proof. exact run_lines_each. Qed.
Print Assumptions C02_run_lines_each.

(* EVERY line's words reach its command: a script of any number of lines, each the quoting of any
   words (any length, any bytes but LF), gives for every line exactly its words *)
Theorem C02_script_quoted_lines : forall st wss,
  Forall (Forall (fun w => ~ In NL w)) wss ->
  snd (run_script st (unlines (map quoted_line wss))) = map Some wss.
Proof. exact script_quoted_lines. Qed.
Print Assumptions C02_script_quoted_lines.

(* a phase comment line, which run() does not hand to the tokenizer, has no words and no effect *)
Theorem C02_phase_line_no_words : forall st r,
  ts_parse st (ts_phase_prefix ++ r) = Some [] /\ fst (ts_step st (ts_phase_prefix ++ r)) = st.
Proof. exact (fun st r => conj (phase_line_no_words st r) (phase_line_keeps_state st r)). Qed.
Print Assumptions C02_phase_line_no_words.

(* commands that only read — the listing `env`, `env NAME`, exists, grep, cmp, ... — leave the list
   handed to programs, the lookup map and the current directory as they are, wherever they stand
   in a history *)
Theorem C02_readonly_commands_frame : forall h s,
  hrun (filter (fun c => negb (readonly c)) h) s = hrun h s.
Proof. exact readonly_commands_frame. Qed.
Print Assumptions C02_readonly_commands_frame.

Theorem C02_listing_is_identity : forall s, hstep s (HEnv []) = s.
Proof. exact listing_is_identity. Qed.
Print Assumptions C02_listing_is_identity.

(* a script line is the history command hcmd_of_line reads from it *)
Theorem C02_ts_step_is_hstep : forall st cd line,
  fst (ts_step st line) = hs_env (hstep {| hs_env := st; hs_cd := cd |} (hcmd_of_line st line)).
Proof. exact ts_step_is_hstep. Qed.
Print Assumptions C02_ts_step_is_hstep.

(* after any history of env / ts.Setenv / cd / read-only commands, expansion and ts.Getenv see the
   value of the latest assignment *)
Theorem C02_history_latest_wins : forall h s k,
  getenv (hs_env (hrun h s)) k = pick (last_assign k (hist_assigns h)) (getenv (hs_env s) k).
Proof. exact history_latest_wins. Qed.
Print Assumptions C02_history_latest_wins.

Theorem C02_history_consistent : forall h s,
  forallb api_ok h = true -> consistent (hs_env s) -> consistent (hs_env (hrun h s)).
Proof. exact history_consistent. Qed.
Print Assumptions C02_history_consistent.

(* ... and a program executed at that point finds that very value under every regular name but PWD *)
Theorem C02_history_child_agrees : forall h vars cd0 k l,
  forallb api_ok h = true -> regular k -> k <> pwd_key ->
  let s := hrun h {| hs_env := setup_env vars; hs_cd := cd0 |} in
  child_env (hs_env s) (hs_cd s) = Some l ->
  or_empty (child_lookup k l) = getenv (hs_env s) k /\
  getenv (hs_env s) k = pick (last_assign k (hist_assigns h)) (or_empty (list_get vars k)).
Proof. exact history_child_agrees. Qed.
Print Assumptions C02_history_child_agrees.

Theorem C02_history_child_pwd : forall h s l,
  child_env (hs_env (hrun h s)) (hs_cd (hrun h s)) = Some l ->
  child_lookup pwd_key l = Some (pick (last_cd h) (hs_cd s)).
Proof. exact history_child_pwd. Qed.
Print Assumptions C02_history_child_pwd.

(* the argument-less env prints every variable of the list exactly once, with the value expansion uses *)
Theorem C02_env_listing_shows_current : forall st out,
  env_listing st = Some out ->
  (forall k v, In (k, v) out -> v = getenv st k) /\
  NoDup (map fst out) /\
  (forall kv k v, In kv (env_list st) -> split_kv kv = Some (k, v) -> In k (map fst out)).
Proof. exact env_listing_shows_current. Qed.
Print Assumptions C02_env_listing_shows_current.

(* the executable boolean form of the history statements (extracted; the model driver accumulates
   the history of every script and the runner asks it for every history script) is true on every
   history, initial variables, directory and name *)
Theorem C02_history_holds : forall h vars cd0 k, history_holds h vars cd0 k = true.
Proof. exact history_holds_true. Qed.
Print Assumptions C02_history_holds.

(* ---- fourth wave: the source itself.  Gen/TsParseSrc.v is envvarname and the methods Getenv, Setenv,
   setEnv, expand, parse of TestScript (testscript/testscript.go) and its env command cmdEnv (testscript/cmd.go) translated into Gallina by harness/go2coq
   on every run; ts_recv is the record of the fields line, env, envMap of the receiver, recv_of / env_of go
   between it and the model's state; a method that assigns a field returns the receiver.  Each translated
   function returns Ok of exactly what the model computes, for every input and every receiver: it never
   panics (no index or slice expression of parse is out of range) and does not exhaust an iteration bound
   greater than the length of the line; parse ends in Failed (the call of Fatalf) exactly where the model
   says so. *)

Theorem C02_source_getenv_eq : forall (r : ts_recv) (k : list byte),
  src_TestScript_Getenv r k = Ok (getenv (env_of r) k).
Proof. exact src_Getenv_eq. Qed.
Print Assumptions C02_source_getenv_eq.

Theorem C02_source_setenv_eq : forall (line : list byte) (st : ts_env) (k v : list byte),
  src_TestScript_Setenv (recv_of line st) k v = Ok (recv_of line (setenv k v st)).
Proof. exact src_Setenv_eq. Qed.
Print Assumptions C02_source_setenv_eq.

(* ... on a TestScript whose map was never made the store panics, in the translation as in Go *)
Theorem C02_source_setenv_nil_map : forall (r : ts_recv) (k v : list byte),
  r_envMap r = None -> src_TestScript_Setenv r k v = Panic.
Proof. exact src_Setenv_nil_map. Qed.
Print Assumptions C02_source_setenv_nil_map.

Theorem C02_source_setup_eq : forall (r : ts_recv) (vars : list (list byte)),
  src_TestScript_setEnv r vars = Ok (recv_of (r_line r) (setup_env vars)).
Proof. exact src_setEnv_eq. Qed.
Print Assumptions C02_source_setup_eq.

(* os.Expand as the translation uses it (its mapping is a translated closure, a computation) is the
   model's os_expand whenever the mapping returns *)
Theorem C02_source_os_expand_pure : forall (f : list byte -> list byte) (m : list byte -> res (list byte)) s,
  (forall k, m k = Ok (f k)) -> go_os_Expand s m = Ok (os_expand f s).
Proof. exact go_os_Expand_pure. Qed.
Print Assumptions C02_source_os_expand_pure.

Theorem C02_source_expand_eq : forall (r : ts_recv) (s : list byte),
  src_TestScript_expand r s = Ok (expand (env_of r) s).
Proof. exact src_expand_eq. Qed.
Print Assumptions C02_source_expand_eq.

Theorem C02_source_parse_eq : forall (fuel : nat) (r : ts_recv) (line : list byte),
  length line < fuel ->
  src_TestScript_parse fuel r line =
  Ok (match ts_parse (env_of r) line with
      | Some ws => Done ({| r_line := line; r_env := r_env r; r_envMap := r_envMap r |}, ws)
      | None => Failed
      end).
Proof. exact src_parse_eq. Qed.
Print Assumptions C02_source_parse_eq.

Theorem C02_source_parse_total : forall (fuel : nat) (r : ts_recv) (line : list byte),
  length line < fuel ->
  src_TestScript_parse fuel r line <> Panic /\ src_TestScript_parse fuel r line <> OutOfFuel.
Proof. exact source_parse_total. Qed.
Print Assumptions C02_source_parse_total.

Theorem C02_source_parse_failed_iff : forall (fuel : nat) (r : ts_recv) (line : list byte),
  length line < fuel ->
  (src_TestScript_parse fuel r line = Ok Failed <-> ts_parse (env_of r) line = None).
Proof. exact source_parse_failed_iff. Qed.
Print Assumptions C02_source_parse_failed_iff.

(* the laws, on the translated functions *)
Theorem C02_source_parse_quote_words : forall (fuel : nat) (r : ts_recv) (ws : list (list byte)),
  length (join_sp (map sq ws)) < fuel ->
  src_TestScript_parse fuel r (join_sp (map sq ws)) = Ok (Done (with_line r (join_sp (map sq ws)), ws)).
Proof. exact source_parse_quote_words. Qed.
Print Assumptions C02_source_parse_quote_words.

Theorem C02_source_parse_expand_once : forall (fuel : nat) (r : ts_recv) cmd pre k post v,
  plain_word cmd -> plain_chunk pre -> plain_chunk post -> no_alnum_head post ->
  valid_name k -> src_TestScript_Getenv r k = Ok v ->
  length (cmd ++ SP :: pre ++ dollar :: k ++ post) < fuel ->
  src_TestScript_parse fuel r (cmd ++ SP :: pre ++ dollar :: k ++ post)
  = Ok (Done (with_line r (cmd ++ SP :: pre ++ dollar :: k ++ post), [cmd; pre ++ v ++ post])).
Proof. exact source_parse_expand_once. Qed.
Print Assumptions C02_source_parse_expand_once.

Theorem C02_source_parse_expand_once_brace : forall (fuel : nat) (r : ts_recv) cmd pre k post v,
  plain_word cmd -> plain_chunk pre -> plain_chunk post ->
  brace_word k -> strip_suffix ts_regex_suffix k = None -> src_TestScript_Getenv r k = Ok v ->
  length (cmd ++ SP :: pre ++ dollar :: lbrace :: k ++ rbrace :: post) < fuel ->
  src_TestScript_parse fuel r (cmd ++ SP :: pre ++ dollar :: lbrace :: k ++ rbrace :: post)
  = Ok (Done (with_line r (cmd ++ SP :: pre ++ dollar :: lbrace :: k ++ rbrace :: post), [cmd; pre ++ v ++ post])).
Proof. exact source_parse_expand_once_brace. Qed.
Print Assumptions C02_source_parse_expand_once_brace.

Theorem C02_source_parse_expand_regex : forall (fuel : nat) (r : ts_recv) cmd pre k post v,
  plain_word cmd -> plain_chunk pre -> plain_chunk post ->
  brace_word k -> src_TestScript_Getenv r k = Ok v ->
  length (cmd ++ SP :: pre ++ dollar :: lbrace :: (k ++ ts_regex_suffix) ++ rbrace :: post) < fuel ->
  src_TestScript_parse fuel r (cmd ++ SP :: pre ++ dollar :: lbrace :: (k ++ ts_regex_suffix) ++ rbrace :: post)
  = Ok (Done (with_line r (cmd ++ SP :: pre ++ dollar :: lbrace :: (k ++ ts_regex_suffix) ++ rbrace :: post),
              [cmd; pre ++ quote_meta v ++ post])).
Proof. exact source_parse_expand_regex. Qed.
Print Assumptions C02_source_parse_expand_regex.

Theorem C02_source_expand_regex_denotes : forall (fuel : nat) (r : ts_recv) cmd k v,
  plain_word cmd -> brace_word k -> src_TestScript_Getenv r k = Ok v -> utf8_ok v = true ->
  length (cmd ++ SP :: dollar :: lbrace :: (k ++ ts_regex_suffix) ++ [rbrace]) < fuel ->
  exists p,
    src_TestScript_parse fuel r (cmd ++ SP :: dollar :: lbrace :: (k ++ ts_regex_suffix) ++ [rbrace])
    = Ok (Done (with_line r (cmd ++ SP :: dollar :: lbrace :: (k ++ ts_regex_suffix) ++ [rbrace]), [cmd; p]))
    /\ re_literal p = Some v.
Proof. exact source_expand_regex_denotes. Qed.
Print Assumptions C02_source_expand_regex_denotes.

Theorem C02_source_expand_text_var : forall (r : ts_recv) pre k post v,
  no_dollar pre -> valid_name k -> no_alnum_head post -> src_TestScript_Getenv r k = Ok v ->
  exists rest, src_TestScript_expand r post = Ok rest /\
    src_TestScript_expand r (pre ++ dollar :: k ++ post) = Ok (pre ++ v ++ rest).
Proof. exact source_expand_text_var. Qed.
Print Assumptions C02_source_expand_text_var.

Theorem C02_source_expand_text_regex : forall (r : ts_recv) pre k post v,
  no_dollar pre -> brace_ok k -> src_TestScript_Getenv r k = Ok v ->
  exists rest, src_TestScript_expand r post = Ok rest /\
    src_TestScript_expand r (pre ++ dollar :: lbrace :: (k ++ ts_regex_suffix) ++ rbrace :: post)
    = Ok (pre ++ quote_meta v ++ rest).
Proof. exact source_expand_text_regex. Qed.
Print Assumptions C02_source_expand_text_regex.

(* after setEnv(vars) and any sequence of Setenv calls the translated Getenv returns the value of the last
   call for the name; none of the calls panics *)
Theorem C02_source_latest_wins : forall (r0 : ts_recv) vars pre k v post,
  Forall (fun kv => fst kv <> k) post ->
  exists r1 r2,
    src_TestScript_setEnv r0 vars = Ok r1 /\
    src_setenvs r1 (pre ++ (k, v) :: post) = Ok r2 /\
    src_TestScript_Getenv r2 k = Ok v.
Proof. exact source_latest_wins. Qed.
Print Assumptions C02_source_latest_wins.

Theorem C02_source_unassigned_keeps : forall line st kvs k,
  Forall (fun kv => fst kv <> k) kvs ->
  exists r2, src_setenvs (recv_of line st) kvs = Ok r2 /\
    src_TestScript_Getenv r2 k = src_TestScript_Getenv (recv_of line st) k.
Proof. exact source_unassigned_keeps. Qed.
Print Assumptions C02_source_unassigned_keeps.

Theorem C02_source_envmap_agrees_with_list : forall (r0 : ts_recv) vars kvs,
  Forall (fun kv => no_sep (fst kv)) kvs ->
  exists r1 r2,
    src_TestScript_setEnv r0 vars = Ok r1 /\ src_setenvs r1 kvs = Ok r2 /\ consistent (env_of r2).
Proof. exact source_envmap_agrees_with_list. Qed.
Print Assumptions C02_source_envmap_agrees_with_list.

(* a value stored by the translated Setenv is what the translated parse inserts, once *)
Theorem C02_source_setenv_then_parse : forall (fuel : nat) line0 st cmd pre k post v,
  plain_word cmd -> plain_chunk pre -> plain_chunk post -> no_alnum_head post -> valid_name k ->
  length (cmd ++ SP :: pre ++ dollar :: k ++ post) < fuel ->
  exists r1,
    src_TestScript_Setenv (recv_of line0 st) k v = Ok r1 /\
    src_TestScript_parse fuel r1 (cmd ++ SP :: pre ++ dollar :: k ++ post)
    = Ok (Done (with_line r1 (cmd ++ SP :: pre ++ dollar :: k ++ post), [cmd; pre ++ v ++ post])).
Proof. exact source_setenv_then_parse. Qed.
Print Assumptions C02_source_setenv_then_parse.

(* the env command as translated: with arguments it is the model's cmd_env, every K=V going through the
   translated Setenv; without arguments it leaves line, env and envMap alone and panics exactly where the
   model's listing is None (an entry of ts.env without the separator: kv[:-1] in the Go code); negated it
   ends in Fatalf.  What it prints (Logf) is outside the translated state. *)
Theorem C02_source_cmdenv_eq : forall (line : list byte) (st : ts_env) (neg : bool) (args : list (list byte)),
  src_TestScript_cmdEnv (recv_of line st) neg args =
  if neg then Ok Failed
  else match args with
       | [] => match env_listing st with
               | Some _ => Ok (Done (recv_of line st))
               | None => Panic
               end
       | _ :: _ => Ok (Done (recv_of line (cmd_env args st)))
       end.
Proof. exact src_cmdEnv_eq. Qed.
Print Assumptions C02_source_cmdenv_eq.

Theorem C02_source_env_latest_wins : forall line st pre k v post,
  no_sep k -> Forall (not_assign k) post ->
  exists r', src_TestScript_cmdEnv (recv_of line st) false (pre ++ (k ++ ts_env_sep :: v) :: post) = Ok (Done r') /\
    src_TestScript_Getenv r' k = Ok v.
Proof. exact source_env_latest_wins. Qed.
Print Assumptions C02_source_env_latest_wins.

Theorem C02_source_env_listing_identity : forall line st,
  forallb has_kv (env_list st) = true ->
  src_TestScript_cmdEnv (recv_of line st) false [] = Ok (Done (recv_of line st)).
Proof. exact src_cmdEnv_listing_identity. Qed.
Print Assumptions C02_source_env_listing_identity.

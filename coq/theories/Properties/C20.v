(* C20 — goproxytest serves exactly the modules stored in its directory.
   This file contains only the property theorems, each closed by [exact] of a lemma proved
   elsewhere (Proxy/ProxyStrings.v, ProxyFacts.v, ProxyConc.v, ProxyTheorems.v), with
   Print Assumptions beneath it (ProxyExact.v: the request space as an iff, the list as a set,
   arbitrary bytes, history independence).  The model is Proxy/Proxy.v; every literal of goproxytest
   (routing strings, extensions, suffixes, separators) is a name of Gen/ProxyConsts.v. *)
From Coq Require Import List NArith.
From Coq.Strings Require Import Byte.
From GI Require Import Gen.ProxyConsts Proxy.Proxy Proxy.ProxyStrings Proxy.ProxyFacts Proxy.ProxyConc
  Proxy.ProxyTheorems Proxy.ProxyExamples Proxy.XMod Proxy.XModFacts Proxy.ProxyRefine Proxy.ProxyRefineInst
  Proxy.ProxyExact Proxy.ProxyExactExamples.
From GI Require Import Par.ParCache Par.ParCacheBase Par.ParCacheProofs.
Import ListNotations.

(* module.unescapeString inverts module.escapeString, and conversely *)
Theorem C20_unescape_escape : forall s e, escape_string s = Some e -> unescape_string e = Some s.
Proof. exact unescape_escape. Qed.
Print Assumptions C20_unescape_escape.

Theorem C20_escape_unescape : forall e s, unescape_string e = Some s -> escape_string s = Some e.
Proof. exact escape_unescape. Qed.
Print Assumptions C20_escape_unescape.

(* routing is total, and what it returns is a decomposition of the URL path *)
Theorem C20_route_total : forall O url,
  match route O url with
  | RNotFound => True
  | RList path =>
      exists enc, url = list_url enc /\ unescape_path O enc = Some path /\ check_path O path = true
  | RFile path vers ext =>
      exists enc encv, url = file_url enc encv ext /\
        unescape_path O enc = Some path /\ check_path O path = true /\
        unescape_version O encv = Some vers /\ check_elem O vers = true /\
        ~ In ext_sep ext /\ index at_v (enc ++ at_v ++ encv ++ [ext_sep] ++ ext) = Some (length enc)
  end.
Proof. exact route_total. Qed.
Print Assumptions C20_route_total.

(* every stored module version is served: .info/.mod are the stored entries, the zip holds the
   entries whose names do not start with "." in archive order under path@vers/ *)
Theorem C20_serves_stored : forall O d ml p v ep ev a,
  path_ok O p -> vers_ok O v -> allhex v = false ->
  escape_string p = Some ep -> escape_string v = Some ev ->
  stored O d p v = Some a ->
  respond O d ml (file_url ep ev ext_info) =
    (match find_file (entry_dot ++ ext_info) a with Some data => OkBytes data | None => NotFound end) /\
  respond O d ml (file_url ep ev ext_mod) =
    (match find_file (entry_dot ++ ext_mod) a with Some data => OkBytes data | None => NotFound end) /\
  respond O d ml (file_url ep ev ext_zip) = zip_response (build_zip p v a) /\
  ((forall f, In f (visible a) -> zip_entry_bad (zip_name p v (fst f)) (snd f) = false) ->
   respond O d ml (file_url ep ev ext_zip) = OkZip (zip_entries p v a)).
Proof. exact serves_stored. Qed.
Print Assumptions C20_serves_stored.

(* the zip as archive/zip's Writer records it in the central directory: one record per stored
   file whose name does not start with ".", in archive order, named path@vers/name, method
   Deflate (Store for names ending in "/"), flags, CRC-32 (oracle function crc) and size of the
   stored data *)
Theorem C20_zip_central_directory : forall O crc d ml p v ep ev a,
  path_ok O p -> vers_ok O v -> allhex v = false ->
  escape_string p = Some ep -> escape_string v = Some ev ->
  stored O d p v = Some a ->
  (forall f, In f (visible a) -> zip_entry_bad (zip_name p v (fst f)) (snd f) = false) ->
  exists es, respond O d ml (file_url ep ev ext_zip) = OkZip es /\
    central_directory crc es = map (fun f => cd_of crc (zip_name p v (fst f), snd f)) (visible a) /\
    map cd_name (central_directory crc es) = map (fun f => zip_name p v (fst f)) (visible a) /\
    map cd_size (central_directory crc es) = map (fun f => N.of_nat (length (snd f))) (visible a) /\
    map cd_crc (central_directory crc es) = map (fun f => crc (snd f)) (visible a).
Proof. exact zip_central_directory. Qed.
Print Assumptions C20_zip_central_directory.

(* the list endpoint: the versions of the module list with that path that are not pseudo-versions
   and pass module.Check, one per line, in directory order (duplicates kept); 404 when none *)
Theorem C20_list_exact : forall O d ml p ep,
  path_ok O p -> escape_string p = Some ep ->
  respond O d ml (list_url ep) =
    (match listed O ml p with
     | [] => NotFound
     | vs => OkBytes (flat_map (fun v => v ++ [x0a]) vs)
     end) /\
  (forall v, In v (listed O ml p) <->
     In (p, v) ml /\ is_pseudo O v = false /\ module_check O p v = true).
Proof. exact list_exact. Qed.
Print Assumptions C20_list_exact.

(* the module list holds every version stored under its documented name ... *)
Theorem C20_modlist_complete : forall O d ml p v ep ev e,
  read_mod_list O d = Some ml ->
  path_ok O p -> vers_ok O v -> ~ In disk_sep p -> ~ In disk_sep v ->
  (exists v', v = vers_mark :: v') ->
  escape_string p = Some ep -> escape_string v = Some ev ->
  let nm := replace_byte path_sep disk_sep ep ++ [disk_sep] ++ ev in
  (In (nm ++ suffix_txt, e) d \/ In (nm ++ suffix_txtar, e) d \/
   (In (nm, e) d /\ is_dir e = true /\ has_suffix suffix_txt nm = false /\ has_suffix suffix_txtar nm = false)) ->
  In (p, v) ml.
Proof. exact modlist_complete. Qed.
Print Assumptions C20_modlist_complete.

(* ... and nothing that is not a directory entry *)
Theorem C20_modlist_sound : forall O d ml p v,
  read_mod_list O d = Some ml -> In (p, v) ml ->
  exists nm e, In (nm, e) d /\ mod_entry O nm (is_dir e) = Some (Some (p, v)).
Proof. exact modlist_sound. Qed.
Print Assumptions C20_modlist_sound.

(* anything not stored yields 404: malformed URL, unknown extension, unknown module (also for
   commit-hash requests), unknown version, list of a module without listable version *)
Theorem C20_not_stored_404 : forall O d ml url,
  (route O url = RNotFound -> respond O d ml url = NotFound) /\
  (forall p v e, route O url = RFile p v e ->
     bytes_eqb e ext_info = false -> bytes_eqb e ext_mod = false -> bytes_eqb e ext_zip = false ->
     respond O d ml url = NotFound) /\
  (forall p v e, route O url = RFile p v e -> (forall v', stored O d p v' = None) ->
     respond O d ml url = NotFound) /\
  (forall p v e, route O url = RFile p v e -> allhex v = false -> stored O d p v = None ->
     respond O d ml url = NotFound) /\
  (forall p, route O url = RList p ->
     (forall v, In (p, v) ml -> is_pseudo O v = true \/ module_check O p v = false) ->
     respond O d ml url = NotFound).
Proof. exact not_stored_404. Qed.
Print Assumptions C20_not_stored_404.

(* conversely, whatever is served comes from an archive of the directory / the module list *)
Theorem C20_served_is_stored : forall O d ml url,
  respond O d ml url <> NotFound ->
  (exists p v, route O url = RList p /\ In v (listed O ml p)) \/
  (exists p v e a, route O url = RFile p v e /\
     stored O d p (target_version O d ml p v) = Some a /\
     ((e = ext_info \/ e = ext_mod) /\ find_file (entry_dot ++ e) a <> None \/ e = ext_zip)).
Proof. exact served_is_stored. Qed.
Print Assumptions C20_served_is_stored.

(* commit-hash requests: the version the archive is looked up under is the requested string
   itself or a version of the module list, of that path, whose NON-EMPTY hash (suffix of a
   pseudo-version, Short field of .info) is a prefix of the request or has it as a prefix *)
Theorem C20_hash_resolution_sound : forall O d ml path vers,
  target_version O d ml path vers = vers \/
  (allhex vers = true /\ In (path, target_version O d ml path vers) ml /\
   version_hash O d path (target_version O d ml path vers) <> [] /\
   hash_matches (version_hash O d path (target_version O d ml path vers)) vers = true).
Proof. exact hash_resolution_sound. Qed.
Print Assumptions C20_hash_resolution_sound.

(* a hash that matches no stored version is looked up literally (and is 404 unless a version
   with that very name is stored: C20_not_stored_404) *)
Theorem C20_hash_no_match : forall O d ml path vers,
  (forall v, In (path, v) ml -> hash_matches (version_hash O d path v) vers = false) ->
  target_version O d ml path vers = vers.
Proof. exact hash_no_match. Qed.
Print Assumptions C20_hash_no_match.

(* any interleaving of the handlers of any requests (cache operations atomic and once per key:
   the specification of par.Cache.Do, property C10): every finished request holds the response
   of a fresh server, provided the requests do not alias one archive under two names *)
Theorem C20_concurrent_same : forall O d ml urls sched,
  compatible O d ml urls ->
  forall i url r,
    nth_error urls i = Some url ->
    nth_error (fst (run_sched d sched (map (handler O d ml) urls) no_caches)) i = Some (Ret r) ->
    r = respond O d ml url.
Proof. exact concurrent_same. Qed.
Print Assumptions C20_concurrent_same.

(* one server answering the requests one after the other *)
Theorem C20_sequential_same : forall O d ml urls,
  compatible O d ml urls -> serve_seq O d ml urls no_caches = map (respond O d ml) urls.
Proof. exact sequential_same. Qed.
Print Assumptions C20_sequential_same.

(* requests whose path and looked-up version contain no "_" never alias *)
Theorem C20_no_alias_compatible : forall O d ml urls,
  (forall u, In u urls -> no_alias O d ml u) -> compatible O d ml urls.
Proof. exact no_alias_compatible. Qed.
Print Assumptions C20_no_alias_compatible.

(* no cache operation blocks: some schedule finishes every handler (the quantification over
   schedules in C20_concurrent_same is not vacuous) *)
Theorem C20_some_schedule_finishes : forall d A (pool : list (prog A)) st,
  exists sched, forallb is_ret (fst (run_sched d sched pool st)) = true.
Proof. exact some_schedule_finishes. Qed.
Print Assumptions C20_some_schedule_finishes.

(* "once-per-key caches" as a theorem about the modelled par.Cache (group Par, ParCache.v: every
   synchronisation operation of Cache.Do is a step, Lock blocks, f runs while other threads run):
   under EVERY interleaving of those operations no handler panics and a handler that has returned
   holds the response of a fresh server.  Uses C10's do_returns_f_value. *)
Theorem C20_event_level_same : forall O d ml urls sch st,
  compatible O d ml urls ->
  server_arun O d ml urls sch = Some st ->
  forall i url, nth_error urls i = Some url ->
  exists h, nth_error (hs response st) i = Some (Some h) /\
            run_own d h = respond O d ml url /\
            (forall r, h = Ret r -> r = respond O d ml url).
Proof. exact server_event_level_same. Qed.
Print Assumptions C20_event_level_same.

(* and that system does not deadlock: in every reachable state all handlers have returned or
   some thread can step (from C10's no-deadlock theorem) *)
Theorem C20_event_level_progress : forall O d ml urls sch st,
  compatible O d ml urls ->
  server_arun O d ml urls sch = Some st ->
  Forall (returned response) (hs response st) \/
  exists t st', astep response d key_arch key_zip key_name
                  (zip_of (flat_map (zip_ops d) (map (handler O d ml) urls))) st t = Some st'.
Proof. exact server_event_level_progress. Qed.
Print Assumptions C20_event_level_progress.

(* the cache state of such a run is a reachable state of the Par model (so C10's theorems, f at
   most once per key and race freedom among them, hold of it) *)
Theorem C20_event_level_cache_reachable : forall A d ka kz name_of Zf (ps : list (prog A)) sch st,
  arun A d ka kz name_of Zf sch (ainit A ps) = Some st ->
  (forall n, name_of (ka n) = n) -> (forall n, name_of (kz n) = n) ->
  (forall n v, In (n, v) (flat_map (zip_ops d) ps) -> Zf n = v) ->
  exists sc, creachable fval_id deps0 crash0 (map (calls A d ka kz) ps) sc /\
             ents (acs A st) = ents sc /\ plain (acs A st) = plain sc.
Proof. exact event_level_cache_reachable'. Qed.
Print Assumptions C20_event_level_cache_reachable.

(* with the Gallina x/mod as oracles the side conditions are computed facts *)
Theorem C20_check_path_x_path_ok : forall short p, check_path_x p = true -> path_ok (xmod_oracles short) p.
Proof. exact check_path_x_path_ok. Qed.
Print Assumptions C20_check_path_x_path_ok.

Theorem C20_check_elem_x_vers_ok : forall short v,
  check_elem_x v = true -> mem_byte bang v = false -> vers_ok (xmod_oracles short) v.
Proof. exact check_elem_x_vers_ok. Qed.
Print Assumptions C20_check_elem_x_vers_ok.

Theorem C20_serves_stored_xmod : forall short d ml p v a,
  check_path_x p = true -> semver_is_valid v = true -> check_elem_x v = true -> mem_byte bang v = false ->
  stored (xmod_oracles short) d p v = Some a ->
  exists ep ev, escape_string p = Some ep /\ escape_string v = Some ev /\
  let O := xmod_oracles short in
  respond O d ml (file_url ep ev ext_info) =
    (match find_file (entry_dot ++ ext_info) a with Some data => OkBytes data | None => NotFound end) /\
  respond O d ml (file_url ep ev ext_mod) =
    (match find_file (entry_dot ++ ext_mod) a with Some data => OkBytes data | None => NotFound end) /\
  respond O d ml (file_url ep ev ext_zip) = zip_response (build_zip p v a).
Proof. exact serves_stored_xmod. Qed.
Print Assumptions C20_serves_stored_xmod.

(* with "_" the hypothesis of C20_concurrent_same / C20_sequential_same is necessary: the archive
   example.com_a_b_v1.0.0.txt answers for example.com/a_b and example.com/a/b, and the zip cache
   keeps the prefix of whichever request came first *)
Theorem C20_alias_history_dependent :
  serve_seq O0 d1 ml1 alias_urls no_caches <> map (respond O0 d1 ml1) alias_urls /\
  ~ compatible O0 d1 ml1 alias_urls.
Proof. exact alias_history_dependent. Qed.
Print Assumptions C20_alias_history_dependent.

(* "anything not stored yields 404" as an IFF over all URL paths: the response is something else
   than 404 exactly when the URL is the list of a module with a listable version, or info/mod of a
   stored version (after commit-hash resolution) that holds that entry, or its zip *)
Theorem C20_route_404_exact : forall O d ml url,
  respond O d ml url <> NotFound <->
  ((exists p, route O url = RList p /\ listed O ml p <> []) \/
   (exists p v e a, route O url = RFile p v e /\
      stored O d p (target_version O d ml p v) = Some a /\
      ((e = ext_info \/ e = ext_mod) /\ find_file (entry_dot ++ e) a <> None \/ e = ext_zip))).
Proof. exact route_404_exact. Qed.
Print Assumptions C20_route_404_exact.

(* whatever is served is served under the ESCAPED NAME of what is stored: the URL is the list URL
   of the escaped module path, or the file URL of the escaped path, the escaped requested version
   and one of info/mod/zip (the basis of the runner's servable-set oracle) *)
Theorem C20_served_url_canonical : forall O d ml url,
  respond O d ml url <> NotFound ->
  (exists p ep, escape_string p = Some ep /\ url = list_url ep /\ check_path O p = true /\
                listed O ml p <> []) \/
  (exists p v ep ev e a, escape_string p = Some ep /\ escape_string v = Some ev /\
      url = file_url ep ev e /\ check_path O p = true /\ check_elem O v = true /\
      (e = ext_info \/ e = ext_mod \/ e = ext_zip) /\
      stored O d p (target_version O d ml p v) = Some a).
Proof. exact served_url_canonical. Qed.
Print Assumptions C20_served_url_canonical.

(* a requested version that is not all lower-case hex is looked up literally *)
Theorem C20_target_version_literal : forall O d ml p v,
  allhex v = false -> target_version O d ml p v = v.
Proof. exact target_version_literal. Qed.
Print Assumptions C20_target_version_literal.

(* the same, executable (extracted and compared with the status of every HTTP response): served_b
   decides it from the store without running a handler *)
Theorem C20_served_b_exact : forall O d ml url,
  served_b O d ml url = true <-> respond O d ml url <> NotFound.
Proof. exact served_b_exact. Qed.
Print Assumptions C20_served_b_exact.

(* an extension that is not info/mod/zip is 404 for a stored version even when the archive holds
   the dot-file of that name (.netrc, .gitignore, .info2, ...): dot-files have no endpoint *)
Theorem C20_dotfile_not_served : forall O d ml p v ep ev a e data,
  path_ok O p -> vers_ok O v ->
  escape_string p = Some ep -> escape_string v = Some ev ->
  stored O d p v = Some a ->
  find_file (entry_dot ++ e) a = Some data ->
  ~ In ext_sep e -> e <> ext_info -> e <> ext_mod -> e <> ext_zip ->
  respond O d ml (file_url ep ev e) = NotFound.
Proof. exact dotfile_not_served. Qed.
Print Assumptions C20_dotfile_not_served.

(* byte identity for EVERY byte string: a directory storing i as .info, m as .mod and x as x.go
   (next to two dot-files) serves exactly i, exactly m, a zip with exactly x, and hides the
   dot-files; no hypothesis on i, m, x *)
Theorem C20_serves_arbitrary_bytes : forall i m x : bytes,
  respond O0 (d3 i m x) ml3 u3_info = OkBytes i /\
  respond O0 (d3 i m x) ml3 u3_mod = OkBytes m /\
  respond O0 (d3 i m x) ml3 u3_zip = OkZip [(zip3_name, x)] /\
  respond O0 (d3 i m x) ml3 u3_netrc = NotFound /\
  respond O0 (d3 i m x) ml3 u3_gitignore = NotFound.
Proof. exact serves_arbitrary_bytes. Qed.
Print Assumptions C20_serves_arbitrary_bytes.

(* the order the list endpoint produces is the order of the module list (directory order) ... *)
Theorem C20_list_in_modlist_order : forall O ml1 ml2 p,
  listed O (ml1 ++ ml2) p = listed O ml1 p ++ listed O ml2 p.
Proof. exact listed_app. Qed.
Print Assumptions C20_list_in_modlist_order.

(* ... but the property is about the SET: servers whose module lists are permutations of each
   other (one that sorts, say) answer with the same status and the same multiset of lines, which
   is exactly the listable versions of the module list *)
Theorem C20_list_exact_set : forall O d ml ml' p ep,
  path_ok O p -> escape_string p = Some ep -> Permutation.Permutation ml ml' ->
  (respond O d ml (list_url ep) = NotFound /\ respond O d ml' (list_url ep) = NotFound) \/
  (exists vs vs', respond O d ml (list_url ep) = OkBytes (list_body vs) /\
                  respond O d ml' (list_url ep) = OkBytes (list_body vs') /\
                  vs <> [] /\ Permutation.Permutation vs vs' /\
                  (forall v, In v vs <-> In (p, v) ml /\ is_pseudo O v = false /\ module_check O p v = true)).
Proof. exact list_response_perm. Qed.
Print Assumptions C20_list_exact_set.

(* no version is listed twice unless the module list holds it twice *)
Theorem C20_list_no_duplicates : forall O ml p, NoDup ml -> NoDup (listed O ml p).
Proof. exact listed_nodup. Qed.
Print Assumptions C20_list_no_duplicates.

(* the server as a state machine (module list read at start-up + the two caches): no sequence of
   requests changes the module list *)
Theorem C20_modlist_immutable : forall O d s urls,
  sv_modlist (snd (serve_all O d s urls)) = sv_modlist s.
Proof. exact modlist_immutable. Qed.
Print Assumptions C20_modlist_immutable.

(* and after ANY history of non-aliasing requests a probe is answered as by a freshly started
   server: every response is a function (respond_pure) of the store and the URL alone *)
Theorem C20_history_independent : forall O d s hist probe,
  server_start O d = Some s ->
  compatible O d (sv_modlist s) (hist ++ [probe]) ->
  nth_error (fst (serve_all O d s (hist ++ [probe]))) (length hist) =
    Some (respond O d (sv_modlist s) probe) /\
  fst (serve_all O d s (hist ++ [probe])) = map (respond_pure O d (sv_modlist s)) (hist ++ [probe]).
Proof. exact history_independent. Qed.
Print Assumptions C20_history_independent.
From GI Require Import Lib.GoSem Proxy.XMod Proxy.SrcLib Proxy.SrcFacts Gen.ProxySrc.

(* ---- the Go source itself: Gen/ProxySrc.v is goproxytest/allhex.go (allHex) and pseudo.go
   (isPseudoVersion) translated to Gallina by harness/go2coq on every run; the statements
   below are about those translated functions, for every input.  Panic = a Go run-time panic. *)

(* allHex: the byte loop returns exactly the model's range test on every byte; it never panics *)
Theorem C20_source_all_hex_eq : forall rev, src_allHex rev = Ok (allhex rev).
Proof. exact src_allHex_eq. Qed.
Print Assumptions C20_source_all_hex_eq.

(* isPseudoVersion: exactly the model's is_pseudo with the computed x/mod oracles (dash count,
   semver.IsValid as modelled in XMod.v, the regexp term regenerated from pseudo.go) *)
Theorem C20_source_is_pseudo_version_eq : forall short v,
  src_isPseudoVersion v = Ok (is_pseudo (xmod_oracles short) v).
Proof. exact src_isPseudoVersion_eq. Qed.
Print Assumptions C20_source_is_pseudo_version_eq.

(* a valid semantic version is never taken for a commit hash, stated on the translated allHex *)
Theorem C20_source_semver_not_hex : forall v, semver_is_valid v = true -> src_allHex v = Ok false.
Proof. exact src_semver_not_hex. Qed.
Print Assumptions C20_source_semver_not_hex.
From Coq Require Import ZArith.
From GI Require Import Lib.GoSemHandler Proxy.SrcGlue Proxy.SrcSegFacts.

(* ---- proxy.go: the server does I/O (net/http, os, archive/zip, par.Cache); the pure SEGMENTS between
   its effects are translated on every run (Gen/ProxySrc.v) and the statements below are about the
   translated definitions, for every input: they never panic (Panic = a Go run-time panic or a use
   outside the modelled domain of a library call) and return exactly what the model computes.  What
   stands between the segments is the hand-written glue of Proxy/SrcGlue.v: os.ReadDir and the range
   loop of readModList; the call of readArchive between "route" and "serve" (= the model's stored
   archive); the value of zipCache.Do (the loop over the archive around the translated member filter
   and name, archive/zip failing on the names it refuses, the bytes of the zip an uninterpreted
   function enc of the entry list); readArchive before and json.Unmarshal after the .info selection of
   findHash.  The x/mod calls denote the Gallina x/mod of Proxy/XMod.v (xmod_oracles). *)

(* readModList, the loop body: entry name and kind -> skipped / error / (path, version) appended *)
Theorem C20_source_mod_entry_eq : forall short srv name isdir,
  src_Server_readModList_entry srv (name, isdir) =
  Ok (entry_outcome srv (mod_entry (xmod_oracles short) name isdir)).
Proof. exact src_readModList_entry_eq. Qed.
Print Assumptions C20_source_mod_entry_eq.

(* readModList: the translated body folded over the directory entries computes the model's module
   list, or ends with an error exactly when the model does *)
Theorem C20_source_read_mod_list_eq : forall short dirname fh d,
  match read_mod_list (xmod_oracles short) d with
  | Some ml => src_readModList_loop (mkServer dirname [] fh) (dir_names d) = Ok (mkServer dirname ml fh, false)
  | None => exists s, src_readModList_loop (mkServer dirname [] fh) (dir_names d) = Ok (s, true)
  end.
Proof. exact src_readModList_eq. Qed.
Print Assumptions C20_source_read_mod_list_eq.

(* handler up to the archive lookup: 404 for what route rejects, the list response, or the decoded
   (path, extension, version after commit-hash resolution); findHash is the oracle the server value
   carries, here the model's hash_of *)
Theorem C20_source_route_eq : forall short d srv w url,
  (forall m, srv_archives srv m = hash_of (xmod_oracles short) d (fst m) (snd m)) ->
  src_Server_handler_route srv w url = Ok (route_outcome short d (srv_modList srv) w url).
Proof. exact src_handler_route_eq. Qed.
Print Assumptions C20_source_route_eq.

(* handler after the archive lookup: nil archive -> 404; .info/.mod -> the stored entry or 404; zip ->
   the cached bytes or 500; any other extension -> 404 *)
Theorem C20_source_serve_eq : forall srv w url path ext vers a c,
  src_Server_handler_serve srv w url path ext vers (as_archive a) c = Ok (serve_outcome w url ext a c).
Proof. exact src_handler_serve_eq. Qed.
Print Assumptions C20_source_serve_eq.

(* the zip members: the translated filter and name, folded over the archive, are the model's entry list *)
Theorem C20_source_zip_entries_eq : forall path vers files,
  src_zip_entries path vers files = Ok (build_zip_entries path vers files).
Proof. exact src_zip_entries_eq. Qed.
Print Assumptions C20_source_zip_entries_eq.

Theorem C20_source_zip_skip_eq : forall f,
  src_Server_handler_zipskip f = Ok (if has_prefix hidden_prefix (fst f) then Continue tt else Normal tt).
Proof. exact src_zipskip_eq. Qed.
Print Assumptions C20_source_zip_skip_eq.

Theorem C20_source_zip_name_eq : forall path vers f,
  src_Server_handler_zipname path vers f = Ok (zip_name path vers (fst f)).
Proof. exact src_zipname_eq. Qed.
Print Assumptions C20_source_zip_name_eq.

(* readArchive: nil when path or version cannot be escaped, else the three candidate file names
   built from the model's archive name and filepath.Join *)
Theorem C20_source_archive_names_eq : forall short srv path vers,
  src_Server_readArchive_names srv path vers =
  Ok (match archive_name (xmod_oracles short) path vers with
      | None => Return None
      | Some x =>
          let name := TxtarWrite.Path.join (srv_dir srv) x in
          Normal (name, name ++ suffix_txt, name ++ suffix_txtar)
      end).
Proof. exact src_readArchive_names_eq. Qed.
Print Assumptions C20_source_archive_names_eq.

(* the WalkDir callback: a file below the archive directory gets its name relative to it *)
Theorem C20_source_arpath_eq : forall name rel,
  src_Server_readArchive_arpath name (name ++ [path_sep] ++ rel) = Ok (Normal rel).
Proof. exact src_readArchive_arpath_eq. Qed.
Print Assumptions C20_source_arpath_eq.

(* findHash: the translated selection of .info between readArchive and json.Unmarshal is the model's hash_of *)
Theorem C20_source_find_hash_eq : forall short d m,
  src_findHash short d m = Ok (hash_of (xmod_oracles short) d (fst m) (snd m)).
Proof. exact src_findHash_eq. Qed.
Print Assumptions C20_source_find_hash_eq.

(* THE HANDLER: the translated segments composed in the order handler runs them leave in a fresh
   ResponseWriter exactly the response of a freshly started model server, for every directory,
   module list and URL path *)
Theorem C20_source_handler_eq : forall short enc dirname d ml url,
  src_handle short enc dirname d ml url = Ok (resp_of enc (respond (xmod_oracles short) d ml url)).
Proof. exact src_handle_respond. Qed.
Print Assumptions C20_source_handler_eq.

(* C20_serves_stored on the composed segments, with computed side conditions *)
Theorem C20_source_serves_stored : forall short enc dirname d ml p v a,
  check_path_x p = true -> semver_is_valid v = true -> check_elem_x v = true -> mem_byte bang v = false ->
  stored (xmod_oracles short) d p v = Some a ->
  exists ep ev, escape_string p = Some ep /\ escape_string v = Some ev /\
  src_handle short enc dirname d ml (file_url ep ev ext_info) =
    Ok (resp_of enc (match find_file (entry_dot ++ ext_info) a with Some data => OkBytes data | None => NotFound end)) /\
  src_handle short enc dirname d ml (file_url ep ev ext_mod) =
    Ok (resp_of enc (match find_file (entry_dot ++ ext_mod) a with Some data => OkBytes data | None => NotFound end)) /\
  src_handle short enc dirname d ml (file_url ep ev ext_zip) = Ok (resp_of enc (zip_response (build_zip p v a))).
Proof. exact src_serves_stored. Qed.
Print Assumptions C20_source_serves_stored.

(* C20_list_exact on the composed segments *)
Theorem C20_source_list_exact : forall short enc dirname d ml p ep,
  path_ok (xmod_oracles short) p -> escape_string p = Some ep ->
  src_handle short enc dirname d ml (list_url ep) =
    Ok (resp_of enc (match listed (xmod_oracles short) ml p with
                     | [] => NotFound
                     | vs => OkBytes (flat_map (fun v => v ++ [x0a]) vs)
                     end)) /\
  (forall v, In v (listed (xmod_oracles short) ml p) <->
     In (p, v) ml /\ is_pseudo (xmod_oracles short) v = false /\ module_check (xmod_oracles short) p v = true).
Proof. exact src_list_exact. Qed.
Print Assumptions C20_source_list_exact.

(* C20_not_stored_404 on the composed segments: status 404 with the text of http.NotFound *)
Theorem C20_source_not_stored_404 : forall short enc dirname d ml url,
  let O := xmod_oracles short in
  let nf := Ok (go_http_NotFound go_response_empty url) in
  (route O url = RNotFound -> src_handle short enc dirname d ml url = nf) /\
  (forall p v e, route O url = RFile p v e ->
     bytes_eqb e ext_info = false -> bytes_eqb e ext_mod = false -> bytes_eqb e ext_zip = false ->
     src_handle short enc dirname d ml url = nf) /\
  (forall p v e, route O url = RFile p v e -> (forall v', stored O d p v' = None) ->
     src_handle short enc dirname d ml url = nf) /\
  (forall p v e, route O url = RFile p v e -> allhex v = false -> stored O d p v = None ->
     src_handle short enc dirname d ml url = nf) /\
  (forall p, route O url = RList p ->
     (forall v, In (p, v) ml -> is_pseudo O v = true \/ module_check O p v = false) ->
     src_handle short enc dirname d ml url = nf).
Proof. exact src_not_stored_404. Qed.
Print Assumptions C20_source_not_stored_404.

(* C20_route_404_exact on the composed segments: the status differs from 404 exactly for the URLs the
   store serves *)
Theorem C20_source_route_404_exact : forall short enc dirname d ml url,
  exists w, src_handle short enc dirname d ml url = Ok w /\
    (rw_status w <> 404%Z <-> served_by (xmod_oracles short) d ml url).
Proof. exact src_route_404_exact. Qed.
Print Assumptions C20_source_route_404_exact.

(* C17 — testscript honours its deadline: blocked commands are stopped and reported.
   Only the property theorems, each closed by [exact] of a lemma of TsDeadline/TsDeadlineFacts.v.
   Times are integer nanoseconds.  [reachable p s]: s is a state of the interleaving system of
   waitOrStop (waiter, helper, process, context, timer) for process kind / kill delay p.
   [wos p o]: the timed run of waitOrStop where each step is late by the delay the oracle o gives;
   [bounded sigma o]: every delay is between 0 and sigma.  [fg_params now eps D e i]: a foreground
   command of a script started by RunT at [now] with Params.Deadline = D (context created eps
   later) that exits by itself at e (None: blocks) and i after the interrupt (None: ignores it). *)
From Coq Require Import List Bool ZArith.
From Coq.Strings Require Import Byte.
From GI Require Import TsBatch.TsBatch TsBatch.TsBatchFacts TsDeadline.TsLate TsDeadline.TsLateFacts.
From GI Require Import Lib.Bytes Gen.TsBatchConsts TsDeadline.TsDeadline TsDeadline.TsDeadlineFacts
  TsDeadline.TsTimed TsDeadline.TsTimedFacts TsDeadline.TsTimedBounds TsDeadline.TsRuns TsDeadline.TsRunsFacts.
Import ListNotations.
Local Open Scope Z_scope.

(* The context expires grace_reserve grace periods before the deadline; the grace period is at
   least min_grace (and at least 1/grace_divisor of the remaining time). *)
Theorem C17_grace_arith : forall now eps D,
  ctx_deadline now eps D + grace_reserve * grace (D - now) = D + eps /\ grace (D - now) >= min_grace.
Proof. exact grace_arith. Qed.
Print Assumptions C17_grace_arith.

Theorem C17_grace_share : forall until, grace until >= Z.quot until grace_divisor.
Proof. exact grace_ge_share. Qed.
Print Assumptions C17_grace_share.

(* "Two grace periods before the deadline, killed one grace period later": the constants of the
   source are these (background commands get a non-positive kill delay: never killed). *)
Theorem C17_two_grace_periods_reserved :
  grace_reserve = 2 /\ (forall until, fg_kill_delay until = grace until) /\ bg_kill_delay <= 0.
Proof. exact two_grace_periods_reserved. Qed.
Print Assumptions C17_two_grace_periods_reserved.

(* Every interleaving: exactly one value is sent and received, and the two goroutines finish
   together, exactly when it has been passed. *)
Theorem C17_wait_or_stop_one_value : forall p s, reachable p s ->
  usent s = urecv s /\ (usent s <= 1)%nat /\
  (w_done (uw s) = true <-> h_done (uh s) = true) /\ (h_done (uh s) = true <-> usent s = 1%nat).
Proof. exact one_value. Qed.
Print Assumptions C17_wait_or_stop_one_value.

(* No deadlock: once the process has exited, either both have finished or one of them can take a
   step that waits for nothing ... *)
Theorem C17_wait_or_stop_no_deadlock : forall p s, reachable p s -> upr s <> PRun ->
  (w_done (uw s) = true /\ h_done (uh s) = true) \/
  exists l s', In l unconditional_labels /\ ustep p l s = Some s'.
Proof. exact no_deadlock. Qed.
Print Assumptions C17_wait_or_stop_no_deadlock.

(* ... and at most 9 such steps exist: every step of a goroutine lowers the rank, the environment
   never changes it. *)
Theorem C17_wait_or_stop_terminates : forall p s l s', reachable p s -> ustep p l s = Some s' ->
  if is_thread_label l then (rank s' < rank s)%nat else rank s' = rank s.
Proof. exact thread_steps_bounded. Qed.
Print Assumptions C17_wait_or_stop_terminates.

(* Attribution: Wait's own result exactly when no signal was sent (the first select sent nil, or Signal
   answered os.ErrProcessDone because Wait had already reaped the process); the context's error when
   the interrupt was delivered — and also when Signal failed with another error but the value was taken
   from the second select; after such a failure the final send carries Signal's own error. *)
Theorem C17_attribution : forall p s, reachable p s ->
  (uw s = WDoneCtx -> (uintr s = true \/ usigerr s = true) /\ uctx s = true) /\
  (uw s = WDoneWait -> uintr s = false /\ usigerr s = false) /\
  (uw s = WDoneSig -> usigerr s = true /\ uctx s = true) /\
  (sig_fails p = false -> usigerr s = false).
Proof. exact attribution. Qed.
Print Assumptions C17_attribution.

Theorem C17_kill_only_after_interrupt_and_timer : forall p s, reachable p s -> ukil s = true ->
  kd_pos p = true /\ (uintr s = true \/ usigerr s = true) /\ utm s = TFired.
Proof. exact kill_only_after_interrupt. Qed.
Print Assumptions C17_kill_only_after_interrupt_and_timer.

Theorem C17_no_signal_before_context_done : forall p s, reachable p s -> (uintr s = true \/ usigerr s = true) ->
  uctx s = true /\ has_ctx p = true.
Proof. exact no_signal_before_ctx. Qed.
Print Assumptions C17_no_signal_before_context_done.

(* Every timed run is one of those interleavings, with the same result. *)
Theorem C17_timed_run_is_an_interleaving : forall p o, res (wos p o) <> RNever ->
  exists s, uexec (uparams_of p) (trace (wos p o)) uinit = Some s /\
            uw s = (match res (wos p o) with RCtx => WDoneCtx | _ => WDoneWait end) /\ uh s = HDone.
Proof. exact wos_trace_valid. Qed.
Print Assumptions C17_timed_run_is_an_interleaving.

(* A blocked foreground command is interrupted grace_reserve grace periods before the deadline
   (at most two slacks late). *)
Theorem C17_interrupt_time : forall sigma now eps D i o,
  bounded sigma o ->
  exists ti, t_int (wos (fg_params now eps D None i) o) = Some ti /\ int_ok (wos (fg_params now eps D None i) o) = true /\
             D + eps - grace_reserve * grace (D - now) <= ti <= D + eps - grace_reserve * grace (D - now) + 2 * sigma.
Proof. exact runt_interrupt_time. Qed.
Print Assumptions C17_interrupt_time.

(* One that ignores the interrupt is killed one grace period later (at most five slacks late). *)
Theorem C17_kill_escalation : forall sigma now eps D o,
  bounded sigma o ->
  exists tk, t_kill (wos (fg_params now eps D None None) o) = Some tk /\
             D + eps - (grace_reserve - 1) * grace (D - now) <= tk <= D + eps - (grace_reserve - 1) * grace (D - now) + 5 * sigma /\
             t_exit (wos (fg_params now eps D None None) o) = Some tk.
Proof. exact runt_kill_time. Qed.
Print Assumptions C17_kill_escalation.

(* Every foreground command has returned seven slacks after the later of its own exit and the
   kill time ... *)
Theorem C17_returns_by : forall sigma now eps D e i o,
  bounded sigma o -> 0 <= sigma ->
  exists r, t_ret (wos (fg_params now eps D e i) o) = Some r /\
            r <= (match e with
                  | Some ee => Z.max ee (D + eps - (grace_reserve - 1) * grace (D - now))
                  | None => D + eps - (grace_reserve - 1) * grace (D - now)
                  end) + 7 * sigma.
Proof. exact runt_returns_by. Qed.
Print Assumptions C17_returns_by.

(* ... hence by the deadline, when the slack is small against the minimum grace period. *)
Theorem C17_done_by_deadline : forall sigma now eps D e i o,
  bounded sigma o -> 0 <= sigma -> 2 <= grace_reserve -> eps + 7 * sigma <= min_grace ->
  exists r, t_ret (wos (fg_params now eps D e i) o) = Some r /\
            r <= Z.max (match e with Some ee => ee + 7 * sigma | None => D end) D.
Proof. exact runt_done_by_deadline. Qed.
Print Assumptions C17_done_by_deadline.

(* A command that finishes more than a slack before the context expires is unaffected: Wait's own
   result, no signal. *)
Theorem C17_early_unaffected : forall sigma now eps D ee i o,
  bounded sigma o -> 0 <= eps -> ee + sigma < D - grace_reserve * grace (D - now) ->
  res (wos (fg_params now eps D (Some ee) i) o) = RWait /\ t_int (wos (fg_params now eps D (Some ee) i) o) = None /\
  t_kill (wos (fg_params now eps D (Some ee) i) o) = None /\
  exists r, t_ret (wos (fg_params now eps D (Some ee) i) o) = Some r /\ ee <= r <= ee + 2 * sigma.
Proof. exact runt_early_unaffected. Qed.
Print Assumptions C17_early_unaffected.

(* A command that exits d after the interrupt, d + slack < killDelay, is not killed. *)
Theorem C17_cooperative_not_killed : forall sigma p o c d,
  bounded sigma o -> tE p = None -> tI p = Some d -> tC p = Some c -> 0 <= d -> d + sigma < tK p ->
  t_kill (wos p o) = None /\ res (wos p o) = RCtx /\
  exists r, t_ret (wos p o) = Some r /\ r <= c + d + 4 * sigma.
Proof. exact cooperative_not_killed. Qed.
Print Assumptions C17_cooperative_not_killed.

(* exec failed and the context has expired: the failure is the timed-out one, negated or not. *)
Theorem C17_timed_out_message : forall p o wait_ok neg v,
  fg_exec p o wait_ok neg = Some v ->
  (match res (wos p o) with RCtx => true | _ => negb wait_ok end) = true ->
  (exists c r, tC p = Some c /\ t_ret (wos p o) = Some r /\ c <= r) ->
  v = XTimedOut timed_out_message.
Proof. exact timed_out_report. Qed.
Print Assumptions C17_timed_out_message.

(* A foreground command that never exits by itself is reported with the timed-out message. *)
Theorem C17_blocked_reports_timed_out : forall sigma now eps D i o wait_ok neg,
  bounded sigma o -> match i with Some d => 0 <= d | None => True end ->
  fg_exec (fg_params now eps D None i) o wait_ok neg = Some (XTimedOut timed_out_message).
Proof. exact runt_blocked_timed_out. Qed.
Print Assumptions C17_blocked_reports_timed_out.

(* ---- waitOrStop as a timed automaton: [treach par s] — s is reached by some sequence of discrete
   steps (labels of the interleaving system, environment events not before their time) and delays
   (allowed while no pending obligation is more than the slack overdue).  Every interleaving, every
   timing. *)

(* Its control part is a run of the interleaving system: all the theorems above hold of timed runs. *)
Theorem C17_timed_automaton_refines : forall par s, treach par s -> reachable (pu par) (us s).
Proof. exact treach_untimed. Qed.
Print Assumptions C17_timed_automaton_refines.

(* The interrupt is sent between the expiry of the context and three slacks later. *)
Theorem C17_ta_interrupt_window : forall par s ts, wf_tpar par -> treach par s -> at_sig s = Some ts ->
  pC par <= ts <= pC par + 3 * psig par.
Proof. exact ta_interrupt_window. Qed.
Print Assumptions C17_ta_interrupt_window.

(* The kill is sent killDelay after the context expired, at most seven slacks late. *)
Theorem C17_ta_kill_window : forall par s tk, wf_tpar par -> treach par s -> at_kill s = Some tk ->
  pC par + pK par <= tk <= pC par + pK par + 7 * psig par.
Proof. exact ta_kill_window. Qed.
Print Assumptions C17_ta_kill_window.

(* With a deadline and a positive kill delay the clock cannot pass ten slacks after the kill time while
   the waiter has not returned (whatever the process does, also when Signal fails) ... *)
Theorem C17_ta_returns_by : forall par s, wf_tpar par -> has_ctx (pu par) = true -> kd_pos (pu par) = true ->
  treach par s -> w_done (uw (us s)) = false -> now s <= pC par + pK par + 10 * psig par.
Proof. exact ta_returns_by. Qed.
Print Assumptions C17_ta_returns_by.

(* ... so the return time is at most that. *)
Theorem C17_ta_return_time : forall par s r, wf_tpar par -> has_ctx (pu par) = true -> kd_pos (pu par) = true ->
  treach par s -> at_ret s = Some r -> r <= pC par + pK par + 10 * psig par.
Proof. exact ta_return_time. Qed.
Print Assumptions C17_ta_return_time.

(* A command that exits by itself more than three slacks before the context expires: in every timed
   run no signal is ever sent, the result is Wait's own, and waitOrStop returns within three slacks. *)
Theorem C17_ta_early_unaffected : forall par s, wf_tpar par -> early par -> treach par s ->
  uintr (us s) = false /\ usigerr (us s) = false /\ ukil (us s) = false /\ at_sig s = None /\ at_kill s = None /\
  (w_done (uw (us s)) = false -> now s <= pE par + 3 * psig par) /\
  (w_done (uw (us s)) = true ->
   uw (us s) = WDoneWait /\ exists r, at_ret s = Some r /\ pE par <= r <= pE par + 3 * psig par).
Proof. exact ta_early_unaffected. Qed.
Print Assumptions C17_ta_early_unaffected.

(* Under RunT: interrupt grace_reserve grace periods before the deadline, kill one grace period later,
   return at most ten slacks after that. *)
Theorem C17_ta_runt_windows : forall u now_ eps D e d sg s,
  0 <= sg -> 0 <= ctx_deadline now_ eps D -> 0 <= e -> 0 <= d -> has_ctx u = true -> kd_pos u = true ->
  treach (fg_tpar u now_ eps D e d sg) s ->
  let g := grace (D - now_) in
  (forall ts, at_sig s = Some ts -> D + eps - grace_reserve * g <= ts <= D + eps - grace_reserve * g + 3 * sg) /\
  (forall tk, at_kill s = Some tk -> D + eps - (grace_reserve - 1) * g <= tk <= D + eps - (grace_reserve - 1) * g + 7 * sg) /\
  (forall r, at_ret s = Some r -> r <= D + eps - (grace_reserve - 1) * g + 10 * sg).
Proof. exact ta_runt_windows. Qed.
Print Assumptions C17_ta_runt_windows.

(* ---- several RunT calls made by one process (TsRuns.v).  [run_calls_now cs]: what each call of the
   history cs computes (grace period, expiry of its context) for the source as it is — the generated
   constant says whether the grace period is a variable of RunT's body or package-level state;
   [single_call c]: what a fresh process computes for c. *)

(* The outcome of a RunT call does not depend on the calls made before it. *)
Theorem C17_runs_independent : forall cs k c,
  nth_error cs k = Some c -> nth_error (run_calls_now cs) k = Some (single_call c).
Proof. exact runs_independent. Qed.
Print Assumptions C17_runs_independent.

(* A call of a fresh process is the RunT of the theorems above. *)
Theorem C17_single_call_is_runt : forall c D, c_deadline c = Some D ->
  r_grace (single_call c) = grace (D - c_now c) /\
  r_ctx (single_call c) = Some (ctx_deadline (c_now c) (c_eps c) D).
Proof. exact single_call_is_runt. Qed.
Print Assumptions C17_single_call_is_runt.

(* With a grace period kept by the package between calls it is false: after a call with a deadline an
   hour away, the context of a call with a deadline five seconds away is born expired. *)
Theorem C17_kept_grace_period_refuted :
  exists cs k c r, nth_error cs k = Some c /\ nth_error (run_calls false pstate0 cs) k = Some r /\
    r <> single_call c /\
    (exists x, r_ctx r = Some x /\ x < c_now c) /\ (exists y, r_ctx (single_call c) = Some y /\ c_now c < y).
Proof. exact kept_grace_refuted. Qed.
Print Assumptions C17_kept_grace_period_refuted.

(* "Scripts that finish earlier are unaffected by the deadline", in any history: a command of call k
   that exits more than a slack before that call's context expires is never signalled and returns
   Wait's own result, whatever calls came before; and in a call without a deadline nothing is ever
   signalled. *)
Theorem C17_early_unaffected_in_any_history : forall sigma cs k c D ee i o r,
  nth_error cs k = Some c -> c_deadline c = Some D -> nth_error (run_calls_now cs) k = Some r ->
  bounded sigma o -> 0 <= c_eps c -> ee + sigma < D - grace_reserve * grace (D - c_now c) ->
  res (wos (call_params r (Some ee) i) o) = RWait /\ t_int (wos (call_params r (Some ee) i) o) = None /\
  t_kill (wos (call_params r (Some ee) i) o) = None.
Proof. exact early_unaffected_in_any_history. Qed.
Print Assumptions C17_early_unaffected_in_any_history.

Theorem C17_no_deadline_never_signals : forall cs k c ee i o r,
  nth_error cs k = Some c -> c_deadline c = None -> nth_error (run_calls_now cs) k = Some r ->
  res (wos (call_params r (Some ee) i) o) = RWait /\ t_int (wos (call_params r (Some ee) i) o) = None /\
  t_kill (wos (call_params r (Some ee) i) o) = None.
Proof. exact no_deadline_never_signals. Qed.
Print Assumptions C17_no_deadline_never_signals.

(* ---- the exit status of the command plays no part in the attribution.  [wos_return wins ie we]: the
   last lines of waitOrStop (ie: the helper goroutine's value, we: cmd.Wait's); [fg_exec_gen wins]:
   cmdExec on top of it; interrupt_error_wins: what the source has (generated). *)

(* Once the helper goroutine reports the interrupt, that is what waitOrStop returns, whatever
   cmd.Wait returned. *)
Theorem C17_attribution_ignores_exit_status : forall ie w1 w2, ie <> WNil ->
  wos_return interrupt_error_wins ie w1 = ie /\
  wos_return interrupt_error_wins ie w1 = wos_return interrupt_error_wins ie w2.
Proof. exact attribution_status_free. Qed.
Print Assumptions C17_attribution_ignores_exit_status.

(* cmdExec with the status explicit is the cmdExec of the theorems above. *)
Theorem C17_exec_with_status_is_exec : forall p o wait_ok neg,
  fg_exec_gen interrupt_error_wins p o wait_ok neg = fg_exec p o wait_ok neg.
Proof. exact fg_exec_gen_now. Qed.
Print Assumptions C17_exec_with_status_is_exec.

(* A foreground command blocked until the context expired is reported with the timed-out message
   whatever status it exits with on the interrupt — 0 included. *)
Theorem C17_blocked_timed_out_any_status : forall sigma now eps D i o wait_ok neg,
  bounded sigma o -> match i with Some d => 0 <= d | None => True end ->
  fg_exec_gen interrupt_error_wins (fg_params now eps D None i) o wait_ok neg = Some (XTimedOut timed_out_message).
Proof. exact blocked_timed_out_any_status. Qed.
Print Assumptions C17_blocked_timed_out_any_status.

(* With the interrupt error returned only when cmd.Wait failed too, a blocked command that exits 0
   on the interrupt is a success: refuted by witness. *)
Theorem C17_success_on_interrupt_refuted :
  exists now eps D i o, bounded 0 o /\
    fg_exec_gen false (fg_params now eps D None (Some i)) o true false = Some XOk /\
    fg_exec_gen interrupt_error_wins (fg_params now eps D None (Some i)) o true false = Some (XTimedOut timed_out_message).
Proof. exact success_on_interrupt_refuted. Qed.
Print Assumptions C17_success_on_interrupt_refuted.

(* ---- scripts that start long after the RunT call (TsLate.v) *)

(* The context of a script is the one RunT created before it started any subtest (generated
   constant): when it expires does not depend on when the script starts. *)
Theorem C17_script_context_is_runts : forall now eps D t0,
  script_ctx_deadline now eps D t0 = ctx_deadline now eps D.
Proof. exact script_ctx_is_runts. Qed.
Print Assumptions C17_script_context_is_runts.

(* Hence a foreground command that is started before the context expires - however late its script
   got going: sequential T, -parallel 1, a slow script in front - is for waitOrStop exactly the command
   of the theorems above ... *)
Theorem C17_late_script_same_command : forall now eps D t0 e i,
  t0 <= ctx_deadline now eps D -> fg_params_at now eps D t0 e i = fg_params now eps D e i.
Proof. exact late_script_same_params. Qed.
Print Assumptions C17_late_script_same_command.

(* ... in particular it is interrupted two grace periods before the deadline of the RunT call. *)
Theorem C17_late_script_interrupt_time : forall sigma now eps D t0 i o,
  bounded sigma o -> t0 <= ctx_deadline now eps D ->
  exists ti, t_int (wos (fg_params_at now eps D t0 None i) o) = Some ti /\ int_ok (wos (fg_params_at now eps D t0 None i) o) = true /\
             D + eps - grace_reserve * grace (D - now) <= ti <= D + eps - grace_reserve * grace (D - now) + 2 * sigma.
Proof. exact late_script_interrupt_time. Qed.
Print Assumptions C17_late_script_interrupt_time.

(* A command started after the context has expired is interrupted as soon as it runs, and killed one
   grace period after that if it ignores the interrupt. *)
Theorem C17_started_after_expiry : forall sigma now eps D t0 i o,
  bounded sigma o -> ctx_deadline now eps D <= t0 ->
  exists ti, t_int (wos (fg_params_at now eps D t0 None i) o) = Some ti /\ int_ok (wos (fg_params_at now eps D t0 None i) o) = true /\
             t0 <= ti <= t0 + 2 * sigma.
Proof. exact started_after_expiry. Qed.
Print Assumptions C17_started_after_expiry.

Theorem C17_started_after_expiry_kill : forall sigma now eps D t0 o,
  bounded sigma o -> ctx_deadline now eps D <= t0 ->
  exists tk, t_kill (wos (fg_params_at now eps D t0 None None) o) = Some tk /\
             t0 + grace (D - now) <= tk <= t0 + grace (D - now) + 5 * sigma.
Proof. exact started_after_expiry_kill. Qed.
Print Assumptions C17_started_after_expiry_kill.

(* With one context per subtest, counted from the start of the subtest, it is false: a script that
   starts late and blocks is interrupted after the deadline. *)
Theorem C17_context_per_subtest_refuted :
  exists now eps D t0 o,
    now <= t0 /\ t0 <= ctx_deadline now eps D /\ bounded 0 o /\
    exists ti, t_int (wos (fg_params_at_gen false now eps D t0 None None) o) = Some ti /\ D < ti.
Proof. exact context_per_subtest_refuted. Qed.
Print Assumptions C17_context_per_subtest_refuted.

(* ---- the life of the shared context (the batch model of TsBatch.v) *)

(* Outside the subtests RunT cancels the context only when there is no script at all (generated
   constant).  Then, whatever the retention settings (TestWork, -testwork, WorkdirRoot) and under every
   interleaving, the context is not cancelled while a script is unfinished: "scripts that finish
   earlier are unaffected by the deadline". *)
Theorem C17_context_lives_while_scripts_run : forall cfg progs sched,
  precancel_guarded cfg = early_cleanup_only_without_scripts -> progs <> [] ->
  let st := run cfg progs (start cfg progs) sched in
  all_done st = false -> cancelled (sh st) = false.
Proof. exact context_lives_while_scripts_run. Qed.
Print Assumptions C17_context_lives_while_scripts_run.

(* With a cancel() that RunT runs under some retention setting although there are scripts, it is false. *)
Theorem C17_precancel_refuted :
  exists cfg progs, precancel_guarded cfg = false /\ has_cancel cfg = true /\ retain cfg = true /\ progs <> [] /\
    all_done (start cfg progs) = false /\ cancelled (sh (start cfg progs)) = true.
Proof. exact precancel_refuted. Qed.
Print Assumptions C17_precancel_refuted.

From GI Require Lib.GoSem Lib.GoSemInt64 Lib.GoSemFail TsDeadline.SrcLib Gen.TsDeadlineSrc TsDeadline.SrcFacts.

(* ---- the source itself: the pure segments of RunT, exec and cmdExec, translated on every run
   by harness/go2coq (Gen/TsDeadlineSrc.v), are the model (TsDeadline/SrcFacts.v).  time.Duration
   is int64 with wrap-around (Lib/GoSemInt64.v); [until] is the value of time.Until(p.Deadline);
   [until_ok until]: an int64 not among the lowest grace_reserve * min_grace values. *)

(* The translated arithmetic of RunT (gp := timeout / 20, the 100 ms floor, timeout -= 2 * gracePeriod)
   computes the model's grace period and context time-out. *)
Theorem C17_source_deadline_arith : forall until, TsDeadline.SrcFacts.until_ok until ->
  TsDeadlineSrc.src_RunT_deadline min_grace until = GoSem.Ok (GoSem.Normal (grace until, ctx_timeout until)).
Proof. exact TsDeadline.SrcFacts.src_deadline_eq. Qed.
Print Assumptions C17_source_deadline_arith.

(* The grace period is the model's for EVERY int64 value of time.Until. *)
Theorem C17_source_grace_every_int64 : forall until, GoSemInt64.is_i64 until ->
  exists t, TsDeadlineSrc.src_RunT_deadline min_grace until = GoSem.Ok (GoSem.Normal (grace until, t)).
Proof. exact TsDeadline.SrcFacts.src_deadline_grace. Qed.
Print Assumptions C17_source_grace_every_int64.

(* On the lowest 200 ms worth of int64 values (time.Until saturates there for a deadline more
   than about 292 years in the past) Go's subtraction wraps: the context gets a time-out of about
   +292 years instead of a negative one. *)
Theorem C17_source_deadline_wraps : forall until,
  - GoSemInt64.i64_two63 <= until < - GoSemInt64.i64_two63 + grace_reserve * min_grace ->
  TsDeadlineSrc.src_RunT_deadline min_grace until =
    GoSem.Ok (GoSem.Normal (min_grace, ctx_timeout until + GoSemInt64.i64_two64)).
Proof. exact TsDeadline.SrcFacts.src_deadline_wraps. Qed.
Print Assumptions C17_source_deadline_wraps.

(* From Params to context.WithTimeout, by the translated segments in source order (declaration,
   test of Params.Deadline, arithmetic, arguments of the call): no deadline, no context with a
   time-out; otherwise the context is derived from context.Background() with the model's time-out,
   and the grace period is the model's. *)
Theorem C17_source_runt_context : forall p until, TsDeadline.SrcFacts.until_ok until ->
  TsDeadline.SrcFacts.src_runt_context p until =
    GoSem.Ok (if TsDeadline.SrcLib.go_time_IsZero (TsDeadline.SrcLib.p_Deadline p) then (None, min_grace)
              else (Some (TsDeadline.SrcLib.CtxBackground, ctx_timeout until), grace until)).
Proof. exact TsDeadline.SrcFacts.src_runt_context_eq. Qed.
Print Assumptions C17_source_runt_context.

(* "Two grace periods before the deadline", on the translated segments. *)
Theorem C17_source_two_grace_periods : forall p until, TsDeadline.SrcFacts.until_ok until ->
  TsDeadline.SrcLib.go_time_IsZero (TsDeadline.SrcLib.p_Deadline p) = false ->
  exists g t, TsDeadline.SrcFacts.src_runt_context p until = GoSem.Ok (Some (TsDeadline.SrcLib.CtxBackground, t), g) /\
              (t + grace_reserve * g = until) /\ g >= min_grace /\ g >= Z.quot until grace_divisor.
Proof. exact TsDeadline.SrcFacts.src_two_grace_periods. Qed.
Print Assumptions C17_source_two_grace_periods.

(* A foreground command of a script whose record RunT's literal made is waited for with RunT's
   context and the model's kill delay (one grace period); a background command with bg_kill_delay. *)
Theorem C17_source_kill_delay : forall ctx until cmd ts,
  TsDeadlineSrc.src_RunT_script ctx (grace until) = GoSem.Ok (GoSem.Normal ts) ->
  TsDeadlineSrc.src_TestScript_exec_wait_args ts cmd = GoSem.Ok (ctx, cmd, fg_kill_delay until).
Proof. exact TsDeadline.SrcFacts.src_fg_kill_delay_eq. Qed.
Print Assumptions C17_source_kill_delay.

Theorem C17_source_background_kill_delay : forall ts cmd,
  TsDeadlineSrc.src_TestScript_cmdExec_bg_wait_args ts cmd = GoSem.Ok (TsDeadline.SrcLib.d_ctxt ts, cmd, bg_kill_delay).
Proof. exact TsDeadline.SrcFacts.src_bg_wait_args_eq. Qed.
Print Assumptions C17_source_background_kill_delay.

(* RunT's own os.Remove(testTempDir) / cancel() are guarded by a condition that is false whenever
   there is a script. *)
Theorem C17_source_early_cancel_needs_no_scripts : forall p n tw,
  TsDeadlineSrc.src_RunT_no_scripts p n tw = GoSem.Ok true -> n = 0.
Proof. exact TsDeadline.SrcFacts.src_no_scripts_requires_empty. Qed.
Print Assumptions C17_source_early_cancel_needs_no_scripts.

(* The tail of cmdExec, by the translated conditions and Fatalf decisions: the model's verdict
   for every combination of error / expired context / negation ... *)
Theorem C17_source_cmd_exec_verdict : forall ts err expired neg,
  exists x, TsDeadline.SrcFacts.src_cmd_exec_tail ts err expired neg = GoSem.Ok x /\
            TsDeadline.SrcFacts.verdict_of_exit x = Some (cmd_exec_verdict err expired neg).
Proof. exact TsDeadline.SrcFacts.src_cmd_exec_tail_eq. Qed.
Print Assumptions C17_source_cmd_exec_verdict.

(* ... in particular an exec that failed while the context had expired ends in
   Fatalf("test timed out while running command"). *)
Theorem C17_source_timed_out_message : forall ts neg,
  TsDeadline.SrcFacts.src_cmd_exec_tail ts true true neg = GoSem.Ok (GoSemFail.FailedM timed_out_message).
Proof. exact TsDeadline.SrcFacts.src_cmd_exec_timed_out. Qed.
Print Assumptions C17_source_timed_out_message.

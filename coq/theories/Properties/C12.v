(* C12 — an interrupted or failing Put leaves the cache consistent.
   Only the property theorems, each closed by [exact] of a lemma proved in Cache/CacheFaultFacts.v. *)
From Coq Require Import List ZArith.
From Coq.Strings Require Import Byte.
From GI Require Import Lib.Bytes Gen.CacheConsts Cache.CacheEntry Cache.Cache Cache.CacheSeqFacts
  Cache.CacheFault Cache.CacheFaultFacts Cache.CacheHistFacts Cache.CacheFd Cache.CacheFdFacts.
Import ListNotations.

Theorem C12_inv_init : forall (H : bytes -> bytes) (U : bytes -> Prop), Inv H U no_files /\ InvB H U no_files.
Proof. intros H U. split; [apply inv_init|apply invb_init]. Qed.
Print Assumptions C12_inv_init.

(* regime (a): one fault per Put — an operation fails, a write is short and reports it, a
   read-back is short, execution stops before or after any operation, or (with no file fault)
   the source reader errs, ends early or delivers other bytes on the second pass *)
Theorem C12_inv_put_faulty : forall (H : bytes -> bytes) (U : bytes -> Prop),
  (forall x, length (H x) = hash_size_n) -> H_inj_on H U ->
  forall fs id rd tm b,
  Inv H U fs -> length id = hash_size_n -> U (rd_pass1 rd) -> one_fault H b rd ->
  Inv H U (fst (fst (run_f b (put_prog H id rd tm) fs))).
Proof. exact inv_put_faulty. Qed.
Print Assumptions C12_inv_put_faulty.

(* what the faulty Put may have done, file by file *)
Theorem C12_put_faulty_post : forall (H : bytes -> bytes) (U : bytes -> Prop),
  (forall x, length (H x) = hash_size_n) -> H_inj_on H U ->
  forall fs id rd tm b,
  length id = hash_size_n -> I1 H U fs -> U (rd_pass1 rd) -> one_fault H b rd ->
  put_post H id (rd_pass1 rd) fs (fst (fst (run_f b (put_prog H id rd tm) fs))).
Proof. exact put_faulty_post. Qed.
Print Assumptions C12_put_faulty_post.

(* both regimes, including (b) torn write then stop: the byte-wise invariant InvB is preserved
   with no further hypothesis ... *)
Theorem C12_invb_put_faulty : forall (H : bytes -> bytes) (U : bytes -> Prop),
  H_inj_on H U ->
  forall fs id rd tm b,
  InvB H U fs -> U (rd_pass1 rd) -> one_fault_b H b rd ->
  InvB H U (fst (fst (run_f b (put_prog H id rd tm) fs))).
Proof. exact invb_put_faulty. Qed.
Print Assumptions C12_invb_put_faulty.

(* ... and implies Inv when no mixture of hash digits is the hash of another content *)
Theorem C12_invb_inv : forall (H : bytes -> bytes) (U : bytes -> Prop),
  (forall x, length (H x) = hash_size_n) ->
  forall fs, no_hybrid H U -> InvB H U fs -> Inv H U fs.
Proof. exact invb_inv. Qed.
Print Assumptions C12_invb_inv.

(* GetBytes needs no invariant: after any faulty Put from ANY state (pre-damaged outputs included) *)
Theorem C12_get_bytes_sound_after : forall (H : bytes -> bytes) fs id rd tm b id',
  match get_bytes H (fst (fst (run_f b (put_prog H id rd tm) fs))) id' with
  | NotFound => True
  | Found d out size t => H d = out /\ get (fst (fst (run_f b (put_prog H id rd tm) fs))) id' = Some (out, size, t)
  end.
Proof. intros H fs id rd tm b id'. apply get_bytes_sound. Qed.
Print Assumptions C12_get_bytes_sound_after.

Theorem C12_get_file_exact : forall (H : bytes -> bytes) (U : bytes -> Prop) fs id p out size tm,
  Inv H U fs -> get_file fs id = Found p out size tm ->
  exists d0, U d0 /\ H d0 = out /\ fs p = Some d0 /\ Z.of_nat (length d0) = size.
Proof. exact get_file_exact. Qed.
Print Assumptions C12_get_file_exact.

Theorem C12_failed_put_frame : forall (H : bytes -> bytes) (U : bytes -> Prop),
  (forall x, length (H x) = hash_size_n) -> H_inj_on H U ->
  forall fs id rd tm b id',
  Inv H U fs -> length id = hash_size_n -> U (rd_pass1 rd) -> one_fault H b rd -> id' <> id ->
  let fs' := fst (fst (run_f b (put_prog H id rd tm) fs)) in
  get fs' id' = get fs id' /\ get_bytes H fs' id' = get_bytes H fs id' /\ get_file fs' id' = get_file fs id'.
Proof. exact failed_put_frame. Qed.
Print Assumptions C12_failed_put_frame.

(* ---- the output of the faulty Put is ALREADY stored (and shared with other ids): its bytes are
   unchanged at every fault point, whichever content the faulty Put stores *)
Theorem C12_failed_put_preserves_shared_output : forall (H : bytes -> bytes) (U : bytes -> Prop),
  (forall x, length (H x) = hash_size_n) -> H_inj_on H U ->
  forall fs s d,
  I1 H U fs -> fput_ok H U s -> U d -> fs (DatP (H d)) = Some d -> fput_run H s fs (DatP (H d)) = Some d.
Proof. exact failed_put_preserves_shared_output. Qed.
Print Assumptions C12_failed_put_preserves_shared_output.

(* ---- histories of faulty Puts on one cache: the only state handed from call to call is the file
   map ([fhistory_run] is a fold over it); the invariant, every complete output and the lookups of
   every id the history does not store survive any number of failing / interrupted Puts *)
Theorem C12_faulty_history_inv : forall (H : bytes -> bytes) (U : bytes -> Prop),
  (forall x, length (H x) = hash_size_n) -> H_inj_on H U ->
  forall l fs, Inv H U fs -> Forall (fput_ok H U) l -> Inv H U (fhistory_run H l fs).
Proof. exact faulty_history_inv. Qed.
Print Assumptions C12_faulty_history_inv.

Theorem C12_faulty_history_preserves_outputs : forall (H : bytes -> bytes) (U : bytes -> Prop),
  (forall x, length (H x) = hash_size_n) -> H_inj_on H U ->
  forall l fs d,
  Inv H U fs -> Forall (fput_ok H U) l -> U d -> fs (DatP (H d)) = Some d -> fhistory_run H l fs (DatP (H d)) = Some d.
Proof. exact faulty_history_preserves_outputs. Qed.
Print Assumptions C12_faulty_history_preserves_outputs.

Theorem C12_faulty_history_frame : forall (H : bytes -> bytes) (U : bytes -> Prop),
  (forall x, length (H x) = hash_size_n) -> H_inj_on H U ->
  forall l fs id',
  Inv H U fs -> Forall (fput_ok H U) l -> Forall (fun s => fp_id s <> id') l ->
  let fs' := fhistory_run H l fs in
  get fs' id' = get fs id' /\ get_bytes H fs' id' = get_bytes H fs id' /\ get_file fs' id' = get_file fs id'.
Proof. exact faulty_history_frame. Qed.
Print Assumptions C12_faulty_history_frame.

(* ---- PutBytes is Put from a source that cannot misbehave: every single file fault is covered *)
Theorem C12_put_bytes_faulty_post : forall (H : bytes -> bytes) (U : bytes -> Prop),
  (forall x, length (H x) = hash_size_n) -> H_inj_on H U ->
  forall chunks fs id tm b,
  let d := concat chunks in
  length id = hash_size_n -> I1 H U fs -> U d -> regime_a b ->
  put_post H id d fs (fst (fst (run_f b (put_bytes_prog H id chunks tm) fs))).
Proof. exact put_bytes_faulty_post. Qed.
Print Assumptions C12_put_bytes_faulty_post.

(* ---- descriptors: under every fault budget, from every state, for every source, a Put that
   returns has closed every file it opened (a Put that stops has no process left to hold any) *)
Theorem C12_put_fd_balanced : forall (H : bytes -> bytes) id rd tm b fs,
  (fd_leak b (put_prog H id rd tm) fs = Some 0%nat /\ exists a, snd (fst (run_f b (put_prog H id rd tm) fs)) = Done a) \/
  (fd_leak b (put_prog H id rd tm) fs = None /\ snd (fst (run_f b (put_prog H id rd tm) fs)) = Stopped).
Proof. exact put_fd_balanced. Qed.
Print Assumptions C12_put_fd_balanced.

Theorem C12_put_bytes_fd_balanced : forall (H : bytes -> bytes) id chunks tm b fs,
  (fd_leak b (put_bytes_prog H id chunks tm) fs = Some 0%nat /\ exists a, snd (fst (run_f b (put_bytes_prog H id chunks tm) fs)) = Done a) \/
  (fd_leak b (put_bytes_prog H id chunks tm) fs = None /\ snd (fst (run_f b (put_bytes_prog H id chunks tm) fs)) = Stopped).
Proof. exact put_bytes_fd_balanced. Qed.
Print Assumptions C12_put_bytes_fd_balanced.

(* ------------------------------------------------------------------ *)
(* Cache.putIndexEntry, the WHOLE function translated in world mode (Gen/CacheWorldSrc.v: every
   operating-system call an uninterpreted operation on an abstract world), verify mode off: for
   every world and every behaviour of the operations it performs exactly the operations of the
   model's put_index_body, in its order, with its decisions on every result -- OpenFile(O_WRONLY |
   O_CREATE, 0666), one Write of encode_entry (the clock read of time.Now() as the time stamp),
   Truncate to the entry's length only after a successful Write, Close always, Remove when any
   of them failed and Chtimes otherwise -- and returns nil exactly when the model says true. *)
From GI Require Import Lib.GoSemWorld Lib.GoSemWorldVal Cache.SrcLib Cache.SrcWorld Gen.CacheWorldSrc Cache.SrcWorldFacts.

Theorem C12_source_world_put_index_entry :
  forall (OS : os_ops) (rh : bytes -> bytes) fuel (w : World OS) (c : cw_Cache) (id out : bytes) (size : Z)
         (allow : bool) (h : Handle OS) (o : bool),
  id <> [] -> (0 <= size)%Z ->
  let tm := go_time_UnixNano (op_time_now OS w) in
  match run_prog OS (cw_Cache_dir c) (put_index_body id out (Z.to_nat size) tm) (w, h, o) with
  | (st, ok) =>
      exists err,
        cw_Cache_putIndexEntry OS false rh fuel w c id out size allow = GoSem.Ok (st_world OS st, c, err)
        /\ werr_is_nil err = ok
  end.
Proof. exact cw_putIndexEntry_eq. Qed.
Print Assumptions C12_source_world_put_index_entry.

(* C16 — UpdateScripts rewrites only the mismatching golden entries.
   This file contains only the property theorems, each closed by [exact] of a lemma proved
   in TsRun/TsUpdateFacts.v, with Print Assumptions beneath it.  The recording is the update
   branch of [cmd_cmp] (TsRun/TsCmds.v), the rewriting is [apply_updates] (TsRun/TsUpdate.v);
   parse, format, needs_quote, quote are the txtar model of C03/C14. *)
From Coq Require Import List Bool Arith NArith.
From Coq.Strings Require Import Byte.
From GI Require Import Lib.Bytes Txtar.Txtar
  TsRun.TsFs TsRun.TsState TsRun.TsCmds TsRun.TsRun TsRun.TsSpec TsRun.TsUpdate TsRun.TsUpdateFacts
  TsRun.TsRerun TsRun.TsRerunFacts TsRun.TsNamesFacts.
Import ListNotations.

Theorem C16_update_names : forall a U a',
  apply_updates a U = Some a' -> map fst (files a') = map fst (files a).
Proof. exact update_names. Qed.
Print Assumptions C16_update_names.

Theorem C16_update_frame : forall a U a',
  apply_updates a U = Some a' ->
  comment a' = comment a
  /\ Forall2 (fun e e' => fst e' = fst e /\ (assoc_get U (fst e) = None -> snd e' = snd e)) (files a) (files a').
Proof. exact update_frame. Qed.
Print Assumptions C16_update_frame.

Theorem C16_update_entry : forall a U a',
  apply_updates a U = Some a' ->
  Forall2 (fun e e' => forall c, assoc_get U (fst e) = Some c ->
             (needs_quote c = false /\ snd e' = c) \/ (needs_quote c = true /\ quote c = Some (snd e')))
          (files a) (files a').
Proof. exact update_entry. Qed.
Print Assumptions C16_update_entry.

Theorem C16_update_entry_unquotes : forall c q,
  needs_quote c = true -> quote c = Some q -> unquote q = Some c.
Proof. exact update_entry_unquotes. Qed.
Print Assumptions C16_update_entry_unquotes.

Theorem C16_update_format : forall a U a',
  apply_updates a U = Some a' ->
  exists ds, Forall2 (fun e d => stored U e = Some d) (files a) ds
    /\ format a' = fix_nl (comment a)
         ++ concat (map (fun nd => format_marker (fst nd) ++ fix_nl (snd nd)) (combine (map fst (files a)) ds)).
Proof. exact update_format. Qed.
Print Assumptions C16_update_format.

Theorem C16_apply_updates_none : forall a U,
  apply_updates a U = None <->
  exists n d c, In (n, d) (files a) /\ assoc_get U n = Some c /\ needs_quote c = true /\ quote c = None.
Proof. exact apply_updates_none. Qed.
Print Assumptions C16_apply_updates_none.

Theorem C16_update_order_irrelevant : forall a U U',
  (forall n, assoc_get U n = assoc_get U' n) -> apply_updates a U = apply_updates a U'.
Proof. exact update_order_irrelevant. Qed.
Print Assumptions C16_update_order_irrelevant.

Theorem C16_update_reparses : forall a U a',
  wf_archive a = true ->
  (forall n d c, In (n, d) (files a) -> assoc_get U n = Some c -> c = [] \/ last_byte c = Some NL) ->
  apply_updates a U = Some a' ->
  wf_archive a' = true /\ parse (format a') = a'.
Proof. exact update_reparses. Qed.
Print Assumptions C16_update_reparses.

Theorem C16_update_reparses_file : forall file U a',
  (forall n d c, In (n, d) (files (parse file)) -> assoc_get U n = Some c -> c = [] \/ last_byte c = Some NL) ->
  apply_updates (parse file) U = Some a' ->
  parse (format a') = a'.
Proof. exact update_reparses_file. Qed.
Print Assumptions C16_update_reparses_file.

Theorem C16_cmp_records_only_when : forall upd envsubst neg args st,
  neg = true \/ envsubst = true \/ upd = false
  \/ (forall n1 n2, args = [n1; n2] -> assoc_get (s_files st) (clean (mkabs st n2)) = None) ->
  s_updates (outcome_state (cmd_cmp upd envsubst neg args st)) = s_updates st.
Proof. exact cmp_records_only_when. Qed.
Print Assumptions C16_cmp_records_only_when.

Theorem C16_cmp_differs_fails : forall (upd envsubst : bool) args st n1 n2 t1 data,
  args = [n1; n2] -> bytes_eqb n1 n2 = false ->
  ts_read st n1 = Some t1 -> read_file (s_fs st) (mkabs st n2) = Some data ->
  bytes_eqb t1 (if envsubst then expand (s_env st) data else data) = false ->
  envsubst = true \/ upd = false \/ assoc_get (s_files st) (clean (mkabs st n2)) = None ->
  cmd_cmp upd envsubst false args st = Failed st.
Proof. exact cmp_differs_fails. Qed.
Print Assumptions C16_cmp_differs_fails.

Theorem C16_update_mode_passes : forall st n1 n2 t1 t2 entry,
  bytes_eqb n1 n2 = false ->
  ts_read st n1 = Some t1 -> read_file (s_fs st) (mkabs st n2) = Some t2 ->
  assoc_get (s_files st) (clean (mkabs st n2)) = Some entry ->
  cmd_cmp true false false [n1; n2] st
  = Done (if bytes_eqb t1 t2 then st else set_updates st (assoc_set (s_updates st) entry t1)).
Proof. exact update_mode_passes. Qed.
Print Assumptions C16_update_mode_passes.

(* the unrestricted re-run fix-point does not hold of the model (one entry compared with two
   different outputs); the restricted one is covered by the differential run *)
Theorem C16_rerun_fixpoint_unrestricted_refuted : ~ rerun_fixpoint_unrestricted_statement.
Proof. exact rerun_fixpoint_unrestricted_refuted. Qed.
Print Assumptions C16_rerun_fixpoint_unrestricted_refuted.

(* the "changes nothing" half of the re-run: without UpdateScripts the file is never written *)
Theorem C16_no_flag_no_write : forall cfg work env file,
  c_update cfg = false -> f_change (run_file_full cfg work env file) = Untouched.
Proof. exact no_flag_no_write. Qed.
Print Assumptions C16_no_flag_no_write.

(* an update that cannot be stored is a reported failure of the run, never a crash or a pass *)
Theorem C16_update_error_fails : forall cfg work env file,
  f_change (run_file_full cfg work env file) = UpdateError ->
  (exists n, r_verdict (f_run (run_file_full cfg work env file)) = Fail n)
  /\ r_fail_lines (f_run (run_file_full cfg work env file))
     = r_fail_lines (run_file cfg work env file) ++ [s_lineno (r_final (run_file cfg work env file))].
Proof. exact update_error_fails. Qed.
Print Assumptions C16_update_error_fails.

Theorem C16_update_ok_verdict : forall cfg work env file,
  f_change (run_file_full cfg work env file) <> UpdateError ->
  f_run (run_file_full cfg work env file) = run_file cfg work env file.
Proof. exact update_ok_verdict. Qed.
Print Assumptions C16_update_ok_verdict.

(* the restricted re-run fix-point (TsRun/TsRerun.v: every executed line is tree-free or is the
   only `cmp stdout|stderr G` of its archive entry): the two runs go in lockstep *)
Theorem C16_rerun_lockstep : forall cfg fs2 Ufinal,
  c_update cfg = true ->
  forall ls n st1 seen stF,
  (forall d, is_dir_node (stat fs2 d) = is_dir_node (stat (s_fs st1) d)) ->
  golden_tables st1 fs2 Ufinal ->
  (forall e, ~ In e seen -> assoc_get (s_updates st1) e = None) ->
  safe_run cfg ls n st1 seen ->
  run_lines cfg ls n false st1 = (EPass, stF, []) ->
  (forall e, assoc_get Ufinal e = assoc_get (s_updates stF) e) ->
  run_lines (cfg_update cfg false) ls n false (swapfu st1 fs2 []) = (EPass, swapfu stF fs2 [], []).
Proof. exact rerun_lockstep. Qed.
Print Assumptions C16_rerun_lockstep.

Theorem C16_rerun_fixpoint_restricted_partial : forall cfg work env a a' st1 st2 stF,
  c_update cfg = true ->
  setup cfg work env a = (st1, true) ->
  setup (cfg_update cfg false) work env a' = (st2, true) ->
  comment a' = comment a ->
  st2 = swapfu st1 (s_fs st2) [] ->
  shape_eq (s_fs st2) (s_fs st1) ->
  s_updates st1 = [] ->
  run_script cfg (comment a) st1 = {| r_verdict := Pass; r_final := stF; r_fail_lines := [] |} ->
  golden_tables st1 (s_fs st2) (s_updates stF) ->
  safe_run cfg (script_lines (comment a)) 0 st1 [] ->
  run_archive (cfg_update cfg false) work env a'
  = {| r_verdict := Pass; r_final := swapfu stF (s_fs st2) []; r_fail_lines := [] |}.
Proof. exact rerun_fixpoint_restricted_partial. Qed.
Print Assumptions C16_rerun_fixpoint_restricted_partial.

Theorem C16_rerun_writes_nothing : forall cfg work env file',
  f_change (run_file_full (cfg_update cfg false) work env file') = Untouched.
Proof. exact rerun_writes_nothing. Qed.
Print Assumptions C16_rerun_writes_nothing.

(* the restricted fix-point at file level: all side conditions are one executable check,
   [rerun_covered], which the runner evaluates on every generated case *)
Theorem C16_rerun_fixpoint_covered : forall cfg work env file file',
  c_update cfg = true ->
  r_verdict (f_run (run_file_full cfg work env file)) = Pass ->
  rerun_covered cfg work env file file' = true ->
  r_verdict (f_run (run_file_full (cfg_update cfg false) work env file')) = Pass
  /\ f_change (run_file_full (cfg_update cfg false) work env file') = Untouched.
Proof. exact rerun_fixpoint_covered. Qed.
Print Assumptions C16_rerun_fixpoint_covered.

Theorem C16_safe_run_b_sound : forall cfg ls n st seen,
  safe_run_b cfg ls n st seen = true -> safe_run cfg ls n st seen.
Proof. exact safe_run_b_sound. Qed.
Print Assumptions C16_safe_run_b_sound.

(* "rewrites ONLY the mismatching entries": when no cmp recorded an update the file is not
   written at all, whatever its text -- canonical for txtar.Format or not *)
Theorem C16_no_update_no_write : forall cfg work env file,
  s_updates (r_final (run_file cfg work env file)) = [] ->
  f_change (run_file_full cfg work env file) = Untouched
  /\ f_run (run_file_full cfg work env file) = run_file cfg work env file.
Proof. exact no_update_no_write. Qed.
Print Assumptions C16_no_update_no_write.

Theorem C16_write_only_on_update : forall cfg work env file d,
  f_change (run_file_full cfg work env file) = Rewritten d ->
  s_updates (r_final (run_file cfg work env file)) <> [].
Proof. exact write_only_on_update. Qed.
Print Assumptions C16_write_only_on_update.

(* what is written is the canonical text of the updated archive ... *)
Theorem C16_update_written_canonical : forall file U d,
  (forall n d0 c, In (n, d0) (files (parse file)) -> assoc_get U n = Some c -> c = [] \/ last_byte c = Some NL) ->
  change_of (parse file) U = Rewritten d -> format (parse d) = d.
Proof. exact update_written_canonical. Qed.
Print Assumptions C16_update_written_canonical.

(* ... so the SPELLING of untouched entries in a file that was not canonical (blanks in a marker
   line, CR LF behind it, no final newline) does not survive an update of another entry: the
   byte-level reading of "every other entry stays unchanged" is refuted by a witness; the parsed
   entries do stay unchanged (C16_update_frame) *)
Theorem C16_update_keeps_untouched_bytes_refuted : ~ update_keeps_untouched_bytes_statement.
Proof. exact update_keeps_untouched_bytes_refuted. Qed.
Print Assumptions C16_update_keeps_untouched_bytes_refuted.

(* scriptFiles: filled by setup with (expanded location inside the work directory, cleaned -> entry name as
   the archive spells it), never changed by a script line -- not by mv, cp, rm or symlink either *)
Theorem C16_registered_at_expanded_location : forall cfg work env a p e,
  assoc_get (s_files (fst (setup cfg work env a))) p = Some e ->
  In e (map fst (files a)) /\ p = clean (location work env e) /\ beneath work (location work env e) = true.
Proof. exact setup_files_ok. Qed.
Print Assumptions C16_registered_at_expanded_location.

Theorem C16_script_files_fixed_by_line : forall cfg st line,
  s_files (outcome_state (run_line cfg st line)) = s_files st.
Proof. exact fil_run_line. Qed.
Print Assumptions C16_script_files_fixed_by_line.

Theorem C16_script_files_fixed : forall cfg ls n f st,
  s_files (snd (fst (run_lines cfg ls n f st))) = s_files st.
Proof. exact fil_run_lines. Qed.
Print Assumptions C16_script_files_fixed.

Theorem C16_tree_commands_keep_table : forall args st,
  s_files (outcome_state (cmd_mv args st)) = s_files st
  /\ s_files (outcome_state (cmd_cp args st)) = s_files st
  /\ s_files (outcome_state (cmd_rm args st)) = s_files st
  /\ s_files (outcome_state (cmd_symlink args st)) = s_files st.
Proof. exact fil_tree_commands. Qed.
Print Assumptions C16_tree_commands_keep_table.

(* whatever the script does, an update is only ever recorded under the name of an archive entry as
   written, by a comparison against the expanded location of that entry ... *)
Theorem C16_only_entries_updated : forall cfg work env a e c,
  assoc_get (s_updates (r_final (run_archive cfg work env a))) e = Some c ->
  In e (map fst (files a))
  /\ exists p, assoc_get (s_files (fst (setup cfg work env a))) p = Some e
               /\ p = clean (location work env e) /\ beneath work (location work env e) = true.
Proof. exact only_entries_updated. Qed.
Print Assumptions C16_only_entries_updated.

(* ... and what a run writes is the archive with the same entry names in the same order and the
   same script text *)
Theorem C16_run_rewrites_named_entries_only : forall cfg work env file d,
  f_change (run_file_full cfg work env file) = Rewritten d ->
  exists a', apply_updates (parse file) (s_updates (r_final (run_file cfg work env file))) = Some a'
    /\ d = format a'
    /\ map fst (files a') = map fst (files (parse file))
    /\ comment a' = comment (parse file).
Proof. exact run_rewrites_named_entries_only. Qed.
Print Assumptions C16_run_rewrites_named_entries_only.

From Coq Require Import Permutation.
From GI Require Lib.GoSem Lib.GoSemState Lib.GoSemFail TsRun.SrcLibUpdate Gen.TsUpdateSrc TsRun.SrcFactsUpdate.

(* ---- the source itself: the pure segments of UpdateScripts -- the body of the inner loop of
   applyScriptUpdates, the arguments of its os.WriteFile, and doCmdCmp from the comparison to the
   diff -- translated on every run by harness/go2coq (Gen/TsUpdateSrc.v), are the model
   (TsRun/SrcFactsUpdate.v).  The two loops of applyScriptUpdates are composed around the
   translated body (src_outer: the map iterated in the order [us]; src_apply: then the arguments
   of os.WriteFile). *)

(* One entry of the archive, one recorded update: the name test, then update_data (NeedsQuote /
   Quote), Fatalf exactly where Quote refuses. *)
Theorem C16_source_entry : forall name content found (f : bytes * bytes),
  TsUpdateSrc.src_TestScript_applyScriptUpdates_entry name content found f =
    if negb (bytes_eqb (fst f) name) then GoSem.Ok (GoSem.Continue (found, f))
    else match update_data content with
         | Some d' => GoSem.Ok (GoSem.Normal (true, (fst f, d')))
         | None => GoSem.Ok (GoSem.Return (GoSemFail.FailedM TsRun.SrcFactsUpdate.update_msg))
         end.
Proof. exact TsRun.SrcFactsUpdate.src_entry_eq. Qed.
Print Assumptions C16_source_entry.

(* The rewriting does not depend on the order in which Go iterates over the map: for EVERY
   permutation [us] of the recorded updates U (no key twice; every key the name of an entry) the
   loops never panic; they end in ts.Fatalf exactly when the model has no archive, otherwise
   with the model's entries. *)
Theorem C16_source_apply_updates_any_order : forall U us fs, Permutation us U -> NoDup (map fst U) ->
  (forall k, In k (map fst U) -> In k (map fst fs)) ->
  exists a, TsRun.SrcFactsUpdate.src_outer us fs = GoSem.Ok a /\
            TsRun.SrcFactsUpdate.res_of_model (update_files U fs) a.
Proof. exact TsRun.SrcFactsUpdate.src_apply_updates_eq. Qed.
Print Assumptions C16_source_apply_updates_any_order.

(* What reaches os.WriteFile: the script's own file name and txtar.Format of the model's updated
   archive; nothing is written when Quote refuses. *)
Theorem C16_source_written_bytes : forall U us ts, Permutation us U -> NoDup (map fst U) ->
  (forall k, In k (map fst U) -> In k (map fst (files (SrcLibUpdate.u_archive ts)))) ->
  TsRun.SrcFactsUpdate.src_apply us ts =
    GoSem.Ok (match apply_updates (SrcLibUpdate.u_archive ts) U with
              | Some a' => Some (SrcLibUpdate.u_file ts, format a')
              | None => None
              end).
Proof. exact TsRun.SrcFactsUpdate.src_apply_eq. Qed.
Print Assumptions C16_source_written_bytes.

(* cmp / cmpenv from the comparison on: the model's verdict (cmp_tail is the tail of cmd_cmp:
   C16_source_cmp_tail_is_model), and when an update is recorded -- UpdateScripts, not cmpenv, not
   negated, texts differ, the CLEANED absolute name is a key of scriptFiles -- the receiver
   afterwards agrees with the model's state afterwards: scriptUpdates[entry] = text1. *)
Theorem C16_source_cmp_verdict : forall upd ts st neg env name1 name2 text1 abs2 text2,
  TsRun.SrcFactsUpdate.recv_agrees upd ts st ->
  exists o, TsUpdateSrc.src_TestScript_doCmdCmp_verdict ts neg env name1 name2 text1 abs2 text2 = GoSem.Ok o /\
    match TsRun.SrcFactsUpdate.cmp_tail upd env neg text1 text2 abs2 st with
    | Done st' => exists ts', TsRun.SrcFactsUpdate.view_of_cmp o = Some (TsRun.SrcFactsUpdate.CmpDone ts') /\
                              TsRun.SrcFactsUpdate.recv_agrees upd ts' st'
    | Failed _ => TsRun.SrcFactsUpdate.view_of_cmp o = Some TsRun.SrcFactsUpdate.CmpFailed
    | SkipNow _ => False
    end.
Proof. exact TsRun.SrcFactsUpdate.src_cmp_verdict_eq. Qed.
Print Assumptions C16_source_cmp_verdict.

Theorem C16_source_cmp_tail_is_model : forall upd envsubst neg n1 n2 st text1 data,
  bytes_eqb n1 n2 = false -> ts_read st n1 = Some text1 -> read_file (s_fs st) (mkabs st n2) = Some data ->
  cmd_cmp upd envsubst neg [n1; n2] st =
    TsRun.SrcFactsUpdate.cmp_tail upd envsubst neg text1 (if envsubst then expand (s_env st) data else data) (mkabs st n2) st.
Proof. exact TsRun.SrcFactsUpdate.cmd_cmp_tail. Qed.
Print Assumptions C16_source_cmp_tail_is_model.

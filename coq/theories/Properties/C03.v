(* C03 — txtar: Parse is total and Format/Parse round-trips.
   This file contains only the property theorems, each closed by [exact] of a lemma
   proved elsewhere, with Print Assumptions beneath it. *)
From Coq Require Import List.
From Coq.Strings Require Import Byte.
From GI Require Import Lib.Bytes Gen.TxtarConsts Txtar.Txtar Txtar.TxtarFacts.
Import ListNotations.

Theorem C03_crlf_marker_like_lf : forall l,
  last_byte l <> Some CR -> marker_line (l ++ [CR; NL]) = marker_line (l ++ [NL]).
Proof. exact marker_line_crlf. Qed.
Print Assumptions C03_crlf_marker_like_lf.

(* C03 — txtar: Parse is total and Format/Parse round-trips.
   This file contains only the property theorems, each closed by [exact] of a lemma
   proved elsewhere, with Print Assumptions beneath it. *)
From Coq Require Import List.
From Coq.Strings Require Import Byte.
From GI Require Import Lib.Bytes Gen.TxtarConsts Txtar.Txtar Txtar.TxtarFacts
  Txtar.TxtarIndex Txtar.TxtarIndexFacts Txtar.TxtarHolds Txtar.TxtarHoldsFacts
  Lib.Utf8 Lib.Utf8Facts Lib.Utf8Trim Lib.Utf8TrimFacts Lib.GoSem Gen.TxtarSrc Txtar.SrcFacts.
Import ListNotations.

Theorem C03_parse_format_parse : forall s, parse (format (parse s)) = parse s.
Proof. exact parse_format_parse. Qed.
Print Assumptions C03_parse_format_parse.

Theorem C03_parse_format_wf : forall a, wf_archive a = true -> parse (format a) = a.
Proof. exact parse_format_wf. Qed.
Print Assumptions C03_parse_format_wf.

Theorem C03_parse_wf_archive : forall s, wf_archive (parse s) = true.
Proof. exact parse_wf_archive. Qed.
Print Assumptions C03_parse_wf_archive.

Theorem C03_parse_data_nl : forall s,
  fix_nl (comment (parse s)) = comment (parse s) /\
  Forall (fun nd => fix_nl (snd nd) = snd nd) (files (parse s)).
Proof. exact parse_data_nl. Qed.
Print Assumptions C03_parse_data_nl.

Theorem C03_parse_names_wf : forall s,
  Forall (fun nd => wf_name (fst nd) = true) (files (parse s)).
Proof. exact parse_names_wf. Qed.
Print Assumptions C03_parse_names_wf.

Theorem C03_parse_ref : forall s, ~ In CR s -> parse s = ref_parse s.
Proof. exact parse_ref_In. Qed.
Print Assumptions C03_parse_ref.

Theorem C03_crlf_marker_like_lf : forall l,
  last_byte l <> Some CR -> marker_line (l ++ [CR; NL]) = marker_line (l ++ [NL]).
Proof. exact marker_line_crlf. Qed.
Print Assumptions C03_crlf_marker_like_lf.

Theorem C03_crlf_like_lf : forall pre l post,
  pre = [] \/ last_byte pre = Some NL ->
  ~ In NL l -> last_byte l <> Some CR ->
  map fst (files (parse (pre ++ l ++ [CR; NL] ++ post)))
    = map fst (files (parse (pre ++ l ++ [NL] ++ post)))
  /\ (marker_line (l ++ [NL]) <> None ->
      parse (pre ++ l ++ [CR; NL] ++ post) = parse (pre ++ l ++ [NL] ++ post)).
Proof. exact crlf_like_lf. Qed.
Print Assumptions C03_crlf_like_lf.

Theorem C03_crlf_marker_recognised : forall pre l post n,
  pre = [] \/ last_byte pre = Some NL ->
  ~ In NL l -> marker_core l = Some n ->
  marker_line (l ++ [CR; NL]) = Some n /\ marker_line (l ++ [NL]) = Some n /\
  parse (pre ++ l ++ [CR; NL] ++ post) = parse (pre ++ l ++ [NL] ++ post) /\
  In n (map fst (files (parse (pre ++ l ++ [CR; NL] ++ post)))).
Proof. exact crlf_marker_like_lf. Qed.
Print Assumptions C03_crlf_marker_recognised.

Theorem C03_crlf_nonmarker_local : forall pre l post,
  pre = [] \/ last_byte pre = Some NL ->
  ~ In NL l -> last_byte l <> Some CR -> marker_line (l ++ [NL]) = None ->
  exists ts1 p q ts2,
    comment (parse (pre ++ l ++ [CR; NL] ++ post))
      :: map snd (files (parse (pre ++ l ++ [CR; NL] ++ post)))
      = ts1 ++ fix_nl (p ++ (l ++ [CR; NL]) ++ q) :: ts2 /\
    comment (parse (pre ++ l ++ [NL] ++ post))
      :: map snd (files (parse (pre ++ l ++ [NL] ++ post)))
      = ts1 ++ fix_nl (p ++ (l ++ [NL]) ++ q) :: ts2.
Proof. exact crlf_nonmarker_local. Qed.
Print Assumptions C03_crlf_nonmarker_local.

(* ---- the statement-level (index-faithful) model of archive.go, TxtarIndex.v ---- *)

Theorem C03_is_marker_no_panic : forall data, is_marker_idx data <> MPanic.
Proof. exact is_marker_idx_no_panic. Qed.
Print Assumptions C03_is_marker_no_panic.

Theorem C03_find_file_marker_total : forall fuel data,
  length data + 1 <= fuel ->
  find_file_marker_fuel fuel data <> Panic /\ find_file_marker_fuel fuel data <> OutOfFuel.
Proof. exact find_file_marker_fuel_total. Qed.
Print Assumptions C03_find_file_marker_total.

Theorem C03_parse_total : forall s, parse_idx s <> Panic /\ parse_idx s <> OutOfFuel.
Proof. exact parse_idx_total. Qed.
Print Assumptions C03_parse_total.

Theorem C03_parse_idx_eq : forall s, parse_idx s = Ok (parse s).
Proof. exact parse_idx_eq. Qed.
Print Assumptions C03_parse_idx_eq.

Theorem C03_holds_on : forall s, c03_holds_on s = true.
Proof. exact c03_holds_on_true. Qed.
Print Assumptions C03_holds_on.

(* ---- golang.org/x/tools/txtar.Format at statement level (buffer writes, fmt.Fprintf with the
   regenerated format string), and the x/tools marker constants ---- *)

Theorem C03_format_idx_eq : forall a, format_idx a = Ok (format a).
Proof. exact format_idx_eq. Qed.
Print Assumptions C03_format_idx_eq.

Theorem C03_xtools_constants :
  xtools_format_string = marker ++ [x25; x73] ++ marker_end ++ [NL] /\
  (xtools_marker = marker /\ xtools_marker_end = marker_end /\ xtools_newline_marker = newline_marker).
Proof. exact (conj xtools_format_string_eq xtools_markers_eq). Qed.
Print Assumptions C03_xtools_constants.

(* ---- strings.TrimSpace (used by isMarker) at rune level, Lib/Utf8.v ---- *)

(* the byte-table trim_space of the model strips exactly the maximal prefix and suffix
   of white-space runes: runes decoded as utf8.DecodeRune / DecodeLastRune do, white
   space as unicode.IsSpace defines it in the regenerated standard-library tables *)
Theorem C03_trim_space_runes : forall d,
  trim_space d = trim_space_runes d /\ trim_left d = trim_left_runes d /\ trim_right d = trim_right_runes d.
Proof. exact trim_all_eq. Qed.
Print Assumptions C03_trim_space_runes.

(* strings.TrimSpace as the Go code computes it (indexFunc forwards; lastIndexFunc backwards
   with DecodeLastRune, then the width of the last kept rune by decoding FORWARDS) never fails
   and is the model's trim_space *)
Theorem C03_trim_func_eq : forall d, trim_func d = Some (trim_space d).
Proof. exact trim_func_eq. Qed.
Print Assumptions C03_trim_func_eq.

(* ---- txtar/archive.go as TRANSLATED from the Go source text on every run (Gen/TxtarSrc.v, made by
   harness/go2coq in the vocabulary of Lib/GoSem.v): every generated function is proved equal, on
   every input, to the hand-written statement-level model, failure values included; so all of the
   above holds of the code as translated.  [fuel] bounds the iterations of each loop execution. ---- *)

Theorem C03_source_is_marker_eq : forall data,
  src_isMarker data = match is_marker_idx data with MRes n a => Ok (n, a) | MPanic => Panic end.
Proof. exact src_isMarker_eq. Qed.
Print Assumptions C03_source_is_marker_eq.

Theorem C03_source_fix_nl_eq : forall data, src_fixNL data = Ok (fix_nl data).
Proof. exact src_fixNL_eq. Qed.
Print Assumptions C03_source_fix_nl_eq.

Theorem C03_source_find_file_marker_eq : forall fuel data,
  src_findFileMarker fuel data = find_file_marker_fuel fuel data.
Proof. exact src_findFileMarker_eq. Qed.
Print Assumptions C03_source_find_file_marker_eq.

Theorem C03_source_parse_eq : forall fuel s, length s + 2 <= fuel -> src_Parse fuel s = Ok (parse s).
Proof. exact src_Parse_eq. Qed.
Print Assumptions C03_source_parse_eq.

Theorem C03_source_parse_idx_eq : forall fuel s, length s + 2 <= fuel -> src_Parse fuel s = parse_idx s.
Proof. exact src_Parse_idx_eq. Qed.
Print Assumptions C03_source_parse_idx_eq.

Theorem C03_source_parse_total : forall fuel s,
  length s + 2 <= fuel -> src_Parse fuel s <> Panic /\ src_Parse fuel s <> OutOfFuel.
Proof. exact src_Parse_total. Qed.
Print Assumptions C03_source_parse_total.

Theorem C03_source_parse_format_parse : forall fuel fuel' s a,
  length s + 2 <= fuel -> src_Parse fuel s = Ok a ->
  length (format a) + 2 <= fuel' -> src_Parse fuel' (format a) = Ok a.
Proof. exact src_Parse_format_parse. Qed.
Print Assumptions C03_source_parse_format_parse.

Theorem C03_source_parse_format_wf : forall fuel a,
  wf_archive a = true -> length (format a) + 2 <= fuel -> src_Parse fuel (format a) = Ok a.
Proof. exact src_Parse_format_wf. Qed.
Print Assumptions C03_source_parse_format_wf.

(* C15 — txtar.Write stays inside its directory; txtar-c / txtar-x round trip.
   Only the property theorems, each closed by [exact] of a lemma proved in
   TxtarWrite/WriteFacts.v and TxtarWrite/SavedirFacts.v, with Print Assumptions. *)
From Coq Require Import List NArith.
From Coq.Strings Require Import Byte.
From GI Require Import Lib.Bytes Gen.TxtarWriteConsts Txtar.Txtar
  TxtarWrite.Path TxtarWrite.TxtarWrite TxtarWrite.PathFacts TxtarWrite.WriteFacts
  TxtarWrite.FuelFacts TxtarWrite.NulFacts TxtarWrite.RelFacts TxtarWrite.RelWrite TxtarWrite.GoodWrite
  TxtarWrite.SavedirFacts TxtarWrite.NameFacts TxtarWrite.SortFacts TxtarWrite.WalkFacts
  TxtarWrite.Symlink TxtarWrite.SymlinkFacts TxtarWrite.SymlinkPlain
  TxtarWrite.Fd TxtarWrite.FdFacts TxtarWrite.Cli TxtarWrite.CliFacts.
From GI Require Import Lib.GoSem Lib.GoSemWorld TxtarWrite.SrcLib TxtarWrite.SrcWorld Gen.TxtarWriteWorldSrc
  TxtarWrite.SrcWorldFacts TxtarWrite.SrcWorldRel TxtarWrite.SrcWorldFd TxtarWrite.SrcWalk TxtarWrite.SrcWalkFacts Gen.TxtarWriteSrc TxtarWrite.SrcFacts.
Import ListNotations.

(* A cleaned name that the guard of Write lets through (not absolute, not "..", no
   "../" prefix) is "." or a sequence of real elements: it contains no ".." element. *)
Theorem C15_clean_passes_guard : forall p,
  is_abs (clean p) = false -> clean p <> dotdot -> has_prefix dotdot_sep (clean p) = false ->
  exists R, Forall real R /\ clean p = render false R.
Proof. exact clean_passes_guard. Qed.
Print Assumptions C15_clean_passes_guard.

(* Containment, for every archive, every name (incl. "..", "a/../..", ".", "", "/abs",
   "a//b", trailing slashes), every pre-existing file system and every ABSOLUTE directory
   string: whatever differs afterwards did not exist before and is either the directory
   itself or beneath it ("." and "" denote the directory itself: a file is created AT dir
   when dir did not exist, and the O_EXCL create fails when it does), or is a directory
   on the way down to it (MkdirAll of a directory that did not exist yet).
   No hypothesis on the file system at all; C15_write_contained_any_dir is the same for
   relative directory strings. *)
Theorem C15_write_contained : forall cwd fs dir a fs' r,
  is_abs dir = true -> write cwd fs dir a = (fs', r) ->
  forall p, get fs' p <> get fs p ->
    get fs p = None /\
    (within (resolve cwd dir) p \/ (get fs' p = Some Dir /\ within p (resolve cwd dir))).
Proof. exact write_contained. Qed.
Print Assumptions C15_write_contained.

(* The same for EVERY directory string, relative ones included (txtar-x's default is "."),
   resolved against a current directory that exists: [cwd] is a list of real elements and
   it and everything above it are directories in [fs]. *)
Theorem C15_write_contained_any_dir : forall cwd fs dir a fs' r,
  Forall real cwd -> dir_exists fs cwd -> write cwd fs dir a = (fs', r) ->
  forall p, get fs' p <> get fs p ->
    get fs p = None /\
    (within (resolve cwd dir) p \/ (get fs' p = Some Dir /\ within p (resolve cwd dir))).
Proof. exact write_contained_any_dir. Qed.
Print Assumptions C15_write_contained_any_dir.

(* ... and strictly beneath it when the directory (with everything above it) exists *)
Theorem C15_write_contained_strict : forall cwd fs dir a fs' r,
  is_abs dir = true -> dir_exists fs (resolve cwd dir) -> write cwd fs dir a = (fs', r) ->
  forall p, get fs' p <> get fs p -> get fs p = None /\ beneath (resolve cwd dir) p.
Proof. exact write_contained_strict. Qed.
Print Assumptions C15_write_contained_strict.

Theorem C15_write_contained_any_dir_strict : forall cwd fs dir a fs' r,
  Forall real cwd -> dir_exists fs cwd -> dir_exists fs (resolve cwd dir) ->
  write cwd fs dir a = (fs', r) ->
  forall p, get fs' p <> get fs p -> get fs p = None /\ beneath (resolve cwd dir) p.
Proof. exact write_contained_any_dir_strict. Qed.
Print Assumptions C15_write_contained_any_dir_strict.

(* Nothing that exists is ever changed, whatever the result (any directory string) *)
Theorem C15_never_overwrites : forall cwd fs dir a fs' r,
  write cwd fs dir a = (fs', r) -> forall p x, get fs p = Some x -> get fs' p = Some x.
Proof. exact never_overwrites. Qed.
Print Assumptions C15_never_overwrites.

(* Success implies that no name is absolute, cleans to "..", or cleans to "../..." *)
Theorem C15_write_rejects : forall cwd fs dir a fs',
  write cwd fs dir a = (fs', WOk) ->
  forall n d, In (n, d) (files a) ->
    is_abs n = false /\ clean n <> dotdot /\ has_prefix dotdot_sep (clean n) = false.
Proof. exact write_rejects. Qed.
Print Assumptions C15_write_rejects.

(* On success every entry's data is the contents of the file its name denotes (two
   entries denoting the same file cannot both succeed: the second create fails) *)
Theorem C15_write_contents : forall cwd fs dir a fs',
  write cwd fs dir a = (fs', WOk) ->
  forall n d, In (n, d) (files a) -> get fs' (resolve cwd (join dir (clean n))) = Some (File d).
Proof. exact write_contents. Qed.
Print Assumptions C15_write_contents.

(* "Existing file => error": when Write succeeds, nothing (no file, no directory) existed
   before the call at the path of any entry; equivalently an entry whose target exists
   makes Write fail, whatever its data (empty, equal to the old contents, ...) *)
Theorem C15_write_existing_is_error : forall cwd fs dir a fs',
  write cwd fs dir a = (fs', WOk) ->
  forall n d, In (n, d) (files a) -> get fs (resolve cwd (join dir (clean n))) = None.
Proof. exact write_existing_is_error. Qed.
Print Assumptions C15_write_existing_is_error.

(* Which files txtar-c archives: all but dot files/directories (without -a), files that are
   not valid UTF-8, and files containing a marker line (without -quote, or unquotable) *)
Theorem C15_archived_files : forall fl p d,
  savedir_entry fl (p, d) = None <->
  dot_skipped fl p = true \/ utf8_valid d = false \/
  (needs_quote (fix_nl d) = true /\ (f_quote fl = false \/ quote (fix_nl d) = None)).
Proof. exact savedir_entry_None. Qed.
Print Assumptions C15_archived_files.

(* Round trip.  For every tree of files with txtar-representable names (tree_ok: distinct
   paths of real NUL-free elements whose slash form is non-empty, trimmed and newline-free;
   files are leaves), any flags, and an absolute directory that exists and holds nothing:
   txtar-x on what txtar-c printed succeeds; every archived file is at the same path
   beneath the directory, holding what was stored, and obeying the archive's "unquote NAME"
   comment lines (txtar.Unquote on the files they name; txtar-x itself does not interpret
   them) gives back fix_nl of the original contents; nothing else appears beneath the
   directory except the directories leading to those files.
   The directory is named by ANY NUL-free string (absolute, or relative to a current
   directory of real NUL-free elements: txtar-x's default "." included). *)
Theorem C15_savedir_extract : forall fl t cwd fs dir,
  Forall real cwd -> Forall nul_free cwd -> has_nul dir = false -> tree_ok t ->
  dir_exists fs (resolve cwd dir) ->
  (forall q, beneath (resolve cwd dir) q -> get fs q = None) ->
  exists fs',
    extract cwd fs dir (txtar_c fl t) = (fs', WOk) /\
    (forall p d cl n s, In (p, d) t -> savedir_entry fl (p, d) = Some (cl, (n, s)) ->
       get fs' (resolve cwd dir ++ p) = Some (File s) /\
       restored (comment (parse (txtar_c fl t))) n s = Some (fix_nl d)) /\
    (forall q x, beneath (resolve cwd dir) q -> get fs' q = Some x ->
       exists p d e, In (p, d) t /\ savedir_entry fl (p, d) = Some e /\
         ((q = resolve cwd dir ++ p /\ exists s, x = File s) \/
          (x = Dir /\ proper q (resolve cwd dir ++ p)))).
Proof. exact savedir_extract. Qed.
Print Assumptions C15_savedir_extract.

(* The fuel that bounds os.MkdirAll's recursion in the model is never exhausted: the
   explicit WOutOfFuel answer is not a possible result of Write or of txtar-x. *)
Theorem C15_never_out_of_fuel : forall cwd fs dir a, snd (write cwd fs dir a) <> WOutOfFuel.
Proof. exact write_never_out_of_fuel. Qed.
Print Assumptions C15_never_out_of_fuel.

(* A NUL-free string denotes, from a NUL-free current directory, a path of NUL-free elements *)
Theorem C15_resolve_nul_free : forall cwd p,
  Forall nul_free cwd -> has_nul p = false -> Forall nul_free (resolve cwd p).
Proof. exact resolve_nul_free. Qed.
Print Assumptions C15_resolve_nul_free.


(* filepath.Walk, literally, on the archived directory as a tree (entries of each
   directory in byte order of their names, a directory before its contents, SkipDir for
   a dot directory and nothing for a dot file unless -a): for a tree with distinct names in
   every directory, txtar-c on the tree is the flat model [savedir] on the list of the
   tree's regular files given in any order, and the files are visited in the order
   [walk_order] gives. *)
Theorem C15_savedir_tree_flat : forall fl rt t,
  rnode_ok (RDir rt) -> Permutation.Permutation t (rflat [] (RDir rt)) ->
  savedir_tree fl rt = savedir fl t.
Proof. exact savedir_tree_flat. Qed.
Print Assumptions C15_savedir_tree_flat.

Theorem C15_rwalk_order : forall fl rt,
  rnode_ok (RDir rt) ->
  rwalk fl [] (RDir rt) = filter (fun pd => negb (dot_skipped fl (fst pd))) (walk_order (rflat [] (RDir rt))).
Proof. exact rwalk_order. Qed.
Print Assumptions C15_rwalk_order.

(* What tree_ok demands of every file name: the names txtar cannot represent (empty, with
   leading or trailing white space, containing a newline) are excluded; Examples.v shows
   the round trip failing for each kind (ex_leading_space_name, ex_newline_name,
   ex_trailing_cr_name). *)
Theorem C15_tree_ok_names : forall t p,
  tree_ok t -> In p (map fst t) ->
  join_sep p <> [] /\ trim_space (join_sep p) = join_sep p /\ ~ In NL (join_sep p).
Proof. exact tree_ok_names. Qed.
Print Assumptions C15_tree_ok_names.

(* The archive name txtar-c computes, strings.TrimPrefix(Walk's path, dir+"/"), is the
   file's elements joined by "/" (what [savedir] uses) for every directory argument except
   one that cleans to "/": there the names come out absolute, and txtar-x refuses them
   (ex_root_dir_names). *)
Theorem C15_entry_name : forall d0 p,
  p <> [] -> Forall real p ->
  entry_name (clean d0) p = if bytes_eqb (clean d0) [SEP] then SEP :: join_sep p else join_sep p.
Proof. exact entry_name_spec. Qed.
Print Assumptions C15_entry_name.

(* Permission bits (constants of the MkdirAll / OpenFile calls) under the umask 022 of the
   harness: created directories are usable by their owner, created files readable and
   writable; the runner compares the real modes with created_mode. *)
Theorem C15_created_modes :
  N.land (created_mode 18 Dir) 448 = 448%N /\ forall d, N.land (created_mode 18 (File d)) 384 = 384%N.
Proof. exact created_modes_usable. Qed.
Print Assumptions C15_created_modes.

(* THE SCOPE BOUNDARY: symbolic links inside the target directory.  In the variant of the
   model with links (Symlink.v: the kernel follows links in every directory component of a
   path name, Write's names are purely lexical) containment is REFUTED: a directory that
   already contains  link -> ../out  lets the entry "link/x" create a file in out.  The
   runner observes the same on the real code and records it as a note, not as a violation
   (the property speaks of pre-existing files; an archive cannot create links). *)
Theorem C15_symlink_containment_refuted :
  exists fs dir files fs' p,
    sget fs (resolve [] dir ++ [sl_link_name]) = Some (SLink sl_link_target) /\
    s_write [] fs dir files = (fs', SOk) /\
    sget fs p = None /\ sget fs' p <> None /\ ~ within (resolve [] dir) p.
Proof. exact symlink_containment_refuted. Qed.
Print Assumptions C15_symlink_containment_refuted.

(* ... what does survive links: nothing that exists (file, directory, link, or the file a
   link in the last component points to) is ever changed *)
Theorem C15_symlink_never_overwrites : forall cwd dir files fs fs' r,
  s_write cwd fs dir files = (fs', r) -> forall p x, sget fs p = Some x -> sget fs' p = Some x.
Proof. exact symlink_never_overwrites. Qed.
Print Assumptions C15_symlink_never_overwrites.

(* ... and the link is what it takes: on states without symbolic links (sim: the two states
   hold the same files and directories) the symlink model and the plain model agree on
   Write for a directory named by an absolute string - same result (cr: the same verdict
   in the other type), same resulting state.  The containment theorems above therefore hold
   for the symlink model on link-free states. *)
Theorem C15_symlink_model_agrees : forall cwd fs sfs dir a,
  sim fs sfs -> is_abs dir = true ->
  exists sfs', s_write cwd sfs dir (files a) = (sfs', cr (snd (write cwd fs dir a))) /\
               sim (fst (write cwd fs dir a)) sfs'.
Proof. exact symlink_model_agrees_write. Qed.
Print Assumptions C15_symlink_model_agrees.

(* DESCRIPTORS AND FAILING SYSTEM CALLS.  [write_f world] is the loop of Write with the
   events open / write / close on the files it creates, under a world that may make the
   system calls of any iteration fail (MkdirAll, OpenFile, a short write, Close), for the
   loop-body shape read from the source (is Close deferred, does it precede the error check
   of the write, is its error returned).  Without faults it is [write]: every theorem above
   is about the same function. *)
Theorem C15_write_f_no_faults : forall cwd fs dir a,
  fst (write_f no_faults cwd fs dir a) = (fst (write cwd fs dir a), FR (snd (write cwd fs dir a))).
Proof. exact write_f_no_faults. Qed.
Print Assumptions C15_write_f_no_faults.

(* At every moment of a call of Write at most one descriptor is open (every prefix of the
   event trace), and none when it returns - for every archive, however many entries, on
   every path: success, refusal, and whatever system call fails.  Extraction therefore never
   needs more than O(1) descriptors. *)
Theorem C15_write_fd_bounded : forall world cwd fs dir a fs' r tr,
  write_f world cwd fs dir a = (fs', r, tr) ->
  open_after 0 tr = Some 0 /\
  forall t1 t2, tr = t1 ++ t2 -> exists n, open_after 0 t1 = Some n /\ n <= 1.
Proof. exact write_fd_bounded. Qed.
Print Assumptions C15_write_fd_bounded.

(* What the shape constants protect against: were Close deferred (`defer out.Close()` in
   the loop), a successful Write would hold one descriptor per entry, all of them open
   together just before it returns. *)
Theorem C15_deferred_close_holds_all : forall sh g fl cwd dir files fs fs' tr,
  sh_defer sh = true ->
  write_gen_f sh g fl cwd fs dir files no_faults 0 [] = (fs', FR WOk, tr) ->
  max_open 0 tr = length files.
Proof. exact deferred_close_holds_all. Qed.
Print Assumptions C15_deferred_close_holds_all.

(* Success under any world is the fault-free success: all entries were written. *)
Theorem C15_write_f_ok : forall world cwd fs dir a fs' tr,
  write_f world cwd fs dir a = (fs', FR WOk, tr) -> write cwd fs dir a = (fs', WOk).
Proof. exact write_f_ok. Qed.
Print Assumptions C15_write_f_ok.

(* What an error leaves on disk: the entries before the failing one (number k) were written
   exactly as a successful Write of those k entries writes them; beyond that there are only
   new directories and, possibly, the failing entry's file holding a prefix of its data. *)
Theorem C15_write_error_prefix : forall world cwd fs dir a fs' r tr,
  write_f world cwd fs dir a = (fs', r, tr) -> r <> FR WOk ->
  exists k fsk, k < length (files a) /\
    write_gen the_guard the_flags cwd fs dir (firstn k (files a)) = (fsk, WOk) /\
    ext (leftover cwd dir (nth k (files a) ([], []))) fsk fs'.
Proof. exact write_error_prefix. Qed.
Print Assumptions C15_write_error_prefix.

(* Containment and "never overwrites" hold on every failure path too. *)
Theorem C15_write_f_contained : forall world cwd fs dir a fs' r tr,
  is_abs dir = true -> write_f world cwd fs dir a = (fs', r, tr) ->
  forall p, get fs' p <> get fs p ->
    get fs p = None /\
    (within (resolve cwd dir) p \/ (get fs' p = Some Dir /\ within p (resolve cwd dir))).
Proof. exact write_f_contained. Qed.
Print Assumptions C15_write_f_contained.

Theorem C15_write_f_never_overwrites : forall world cwd fs dir a fs' r tr,
  write_f world cwd fs dir a = (fs', r, tr) -> forall p x, get fs p = Some x -> get fs' p = Some x.
Proof. exact write_f_never_overwrites. Qed.
Print Assumptions C15_write_f_never_overwrites.

(* THE COMMAND LINES.  txtar-c [flags] dir: any mix of the two boolean flags, each spelled
   -x, --x, -x=true or -x=false (package flag's parseOne), the last setting of each counting. *)
Theorem C15_c_cmdline_flags : forall cs d,
  flaglike d = false ->
  c_cmdline (map cflag_arg cs ++ [d]) = CRun (cflags_apply cs {| f_quote := false; f_all := false |}) d.
Proof. exact c_cmdline_flags. Qed.
Print Assumptions C15_c_cmdline_flags.

(* txtar-x: no argument = standard input into the default directory; -C d / --C d / -C=d
   with a file argument = that file into d. *)
Theorem C15_x_cmdline_forms : forall d f,
  flaglike f = false ->
  x_cmdline [] = XRun extract_dir_default XStdin /\
  x_cmdline [DASH :: extract_dir_flag; d] = XRun d XStdin /\
  x_cmdline [DASH :: extract_dir_flag; d; f] = XRun d (XFile f) /\
  x_cmdline [DASH :: DASH :: extract_dir_flag; d; f] = XRun d (XFile f) /\
  x_cmdline [DASH :: extract_dir_flag ++ EQS :: d; f] = XRun d (XFile f) /\
  x_cmdline [f] = XRun extract_dir_default (XFile f).
Proof. exact x_cmdline_forms. Qed.
Print Assumptions C15_x_cmdline_forms.

(* The round trip through the two commands, for every tree of files with txtar-representable
   names - of ANY size - whatever the spelling of the flags, through either input route of
   txtar-x: the file named by the argument (holding what txtar-c printed) or standard input
   (all of it is read: extract_stdin_limit = None in the current source).  Conclusion as in
   C15_savedir_extract. *)
Theorem C15_cli_roundtrip : forall fl t cwd fs dir cargs d0 xargs inp stdin,
  Forall real cwd -> Forall nul_free cwd -> has_nul dir = false -> tree_ok t ->
  dir_exists fs (resolve cwd dir) ->
  (forall q, beneath (resolve cwd dir) q -> get fs q = None) ->
  c_cmdline cargs = CRun fl d0 ->
  x_cmdline xargs = XRun dir inp ->
  (inp = XStdin /\ Some stdin = txtar_c_main cargs t) \/
  (exists f out, inp = XFile f /\ Some out = txtar_c_main cargs t /\ os_read_file cwd fs f = inr out) ->
  exists fs',
    txtar_x_main cwd fs xargs stdin = (fs', XR WOk) /\
    (forall p d cl n s, In (p, d) t -> savedir_entry fl (p, d) = Some (cl, (n, s)) ->
       get fs' (resolve cwd dir ++ p) = Some (File s) /\
       restored (comment (parse (txtar_c fl t))) n s = Some (fix_nl d)) /\
    (forall q x, beneath (resolve cwd dir) q -> get fs' q = Some x ->
       exists p d e, In (p, d) t /\ savedir_entry fl (p, d) = Some e /\
         ((q = resolve cwd dir ++ p /\ exists s, x = File s) \/
          (x = Dir /\ proper q (resolve cwd dir ++ p)))).
Proof. exact cli_roundtrip. Qed.
Print Assumptions C15_cli_roundtrip.

(* ------------------------------------------------------------------------------------------
   THE SOURCE, TRANSLATED.  Gen/TxtarWriteWorldSrc.v is txtar.Write (whole), txtar.ParseFile,
   isAbs and the walk function of cmd/txtar-c translated from the Go source text by
   harness/go2coq (world mode) on every run: state-passing functions over an ABSTRACT record OS
   of operating-system operations (os.MkdirAll, os.OpenFile, File.Write, File.Close,
   os.ReadFile), of which nothing is assumed.  The theorems below are about those generated
   terms; an edit of the source changes the terms and re-opens the proofs. *)

Theorem C15_source_isabs_eq : forall p, tw_isAbs p = Ok (is_abs p).
Proof. exact SrcWorldFacts.src_isAbs_eq. Qed.
Print Assumptions C15_source_isabs_eq.

(* txtar.Write as translated IS the reference program write_ops (SrcWorld.v), for every record of
   operations, every world, every archive and directory: per entry, clean + containment decision
   -> the error without touching anything; else MkdirAll of the parent, the exclusive create,
   one Write of all the data, Close; the first error stops.  It never panics on a non-nil
   archive and needs no iteration bound. *)
Theorem C15_source_write_eq : forall (OS : fs_ops) w a dir,
  tw_Write OS w (Some a) dir = Ok (write_ops OS dir (files a) w).
Proof. exact src_Write_eq. Qed.
Print Assumptions C15_source_write_eq.

(* a nil archive pointer is a panic, as in Go *)
Theorem C15_source_write_nil_panics : forall (OS : fs_ops) w dir, tw_Write OS w None dir = Panic.
Proof. exact src_Write_nil. Qed.
Print Assumptions C15_source_write_nil_panics.

(* WHICH calls, in WHICH order, with WHICH arguments: over the logging operations [traced OS] the
   translated Write returns what it returns over OS, and the log grows by the entries' calls in
   order, each entry one of the four shapes of entry_trace (nothing; MkdirAll failed; MkdirAll,
   OpenFile failed; MkdirAll, OpenFile, Write, Close), up to the first entry that does not end
   well -- with the paths Dir(Join(dir, Clean(name))) / Join(dir, Clean(name)), the permission
   bits and the O_WRONLY|O_CREATE|O_EXCL flag word of the regenerated constants. *)
Theorem C15_source_write_calls : forall (OS : fs_ops) w tr a dir,
  exists t,
    tw_Write (traced OS) (w, tr) (Some a) dir =
      Ok ((fst (write_ops OS dir (files a) w), tr ++ t), snd (write_ops OS dir (files a) w)) /\
    write_trace dir (files a) t.
Proof. exact src_Write_calls. Qed.
Print Assumptions C15_source_write_calls.

(* an entry whose cleaned name the guard rejects: the error, and NO call at all, whatever the
   operating system would have answered *)
Theorem C15_source_write_rejected_untouched : forall (OS : fs_ops) w c n d rest dir,
  rejected the_guard (clean (from_slash n)) = true ->
  tw_Write OS w (Some {| comment := c; files := (n, d) :: rest |}) dir = Ok (w, outside_err n).
Proof. exact src_Write_rejected_first. Qed.
Print Assumptions C15_source_write_rejected_untouched.

(* descriptors, on the translated function, for EVERY behaviour of the operating system: at
   every moment of a call of Write at most one descriptor is open, and none when it returns *)
Theorem C15_source_write_fd_bounded : forall (OS : fs_ops) w a dir w' tr e,
  tw_Write (traced OS) (w, []) (Some a) dir = Ok ((w', tr), e) ->
  fds_after 0 tr = Some 0 /\
  forall t1 t2, tr = t1 ++ t2 -> exists n, fds_after 0 t1 = Some n /\ n <= 1.
Proof. exact src_Write_fd_bounded. Qed.
Print Assumptions C15_source_write_fd_bounded.

(* THE TIE to the model: the translated Write run over the file-system model of TxtarWrite.v
   ([model_fs cwd]: the operations interpreted by mkdir_all / os_open / os_write) is the model's
   write -- the same file system afterwards, and the error it returns decodes to the model's
   verdict.  Every theorem above about [write] is therefore a theorem about the source. *)
Theorem C15_source_write_model : forall cwd fs dir a,
  exists e, tw_Write (model_fs cwd) fs (Some a) dir = Ok (fst (write cwd fs dir a), e) /\
            dec_werr e = snd (write cwd fs dir a).
Proof. exact src_Write_model. Qed.
Print Assumptions C15_source_write_model.

(* ... restated: containment, *)
Theorem C15_source_write_contained : forall cwd fs dir a fs' e,
  is_abs dir = true -> tw_Write (model_fs cwd) fs (Some a) dir = Ok (fs', e) ->
  forall p, get fs' p <> get fs p ->
    get fs p = None /\
    (within (resolve cwd dir) p \/ (get fs' p = Some Dir /\ within p (resolve cwd dir))).
Proof. exact src_Write_contained. Qed.
Print Assumptions C15_source_write_contained.

(* containment for every directory string, relative ones included (txtar-x's default "."), *)
Theorem C15_source_write_contained_any_dir : forall cwd fs dir a fs' e,
  Forall real cwd -> dir_exists fs cwd -> tw_Write (model_fs cwd) fs (Some a) dir = Ok (fs', e) ->
  forall p, get fs' p <> get fs p ->
    get fs p = None /\
    (within (resolve cwd dir) p \/ (get fs' p = Some Dir /\ within p (resolve cwd dir))).
Proof. exact src_Write_contained_any_dir. Qed.
Print Assumptions C15_source_write_contained_any_dir.

(* never overwrites, *)
Theorem C15_source_write_never_overwrites : forall cwd fs dir a fs' e,
  tw_Write (model_fs cwd) fs (Some a) dir = Ok (fs', e) ->
  forall p x, get fs p = Some x -> get fs' p = Some x.
Proof. exact src_Write_never_overwrites. Qed.
Print Assumptions C15_source_write_never_overwrites.

(* a nil error means no name was absolute or climbed out, *)
Theorem C15_source_write_rejects : forall cwd fs dir a fs',
  tw_Write (model_fs cwd) fs (Some a) dir = Ok (fs', WNil) ->
  forall n d, In (n, d) (files a) ->
    is_abs n = false /\ clean n <> dotdot /\ has_prefix dotdot_sep (clean n) = false.
Proof. exact src_Write_rejects. Qed.
Print Assumptions C15_source_write_rejects.

(* every file holds the entry's data, *)
Theorem C15_source_write_contents : forall cwd fs dir a fs',
  tw_Write (model_fs cwd) fs (Some a) dir = Ok (fs', WNil) ->
  forall n d, In (n, d) (files a) -> get fs' (resolve cwd (join dir (clean n))) = Some (File d).
Proof. exact src_Write_contents. Qed.
Print Assumptions C15_source_write_contents.

(* and an existing target is an error *)
Theorem C15_source_write_existing_is_error : forall cwd fs dir a fs',
  tw_Write (model_fs cwd) fs (Some a) dir = Ok (fs', WNil) ->
  forall n d, In (n, d) (files a) -> get fs (resolve cwd (join dir (clean n))) = None.
Proof. exact src_Write_existing_is_error. Qed.
Print Assumptions C15_source_write_existing_is_error.

(* FAILING SYSTEM CALLS, on the translated function.  [fault_os world cwd] (SrcWorldFd.v) is the
   file-system model as a record of operations in which the fault of the current iteration
   (world i: MkdirAll, OpenFile, a short write, Close) makes the operation fail the way Fd.v
   describes, with the open / write / close events logged.  The translated Write run over it IS
   write_f world: the same file system, the same verdict (the error value decodes to it), the
   same events.  The close discipline that write_f takes from the regenerated shape flags is thus
   a consequence of the translation. *)
Theorem C15_source_write_fault : forall world cwd fs dir a,
  match write_f world cwd fs dir a with
  | (fs', r, evs) =>
      exists i' e, tw_Write (fault_os world cwd) (fs, 0, []) (Some a) dir = Ok ((fs', i', evs), e) /\ dec_fres e = r
  end.
Proof. exact src_Write_fault. Qed.
Print Assumptions C15_source_write_fault.

(* ... hence C15_write_fd_bounded, C15_write_error_prefix, C15_write_f_contained and
   C15_write_f_never_overwrites are theorems about the translated function: *)
Theorem C15_source_write_fault_fd_bounded : forall world cwd fs dir a fs' i' tr e,
  tw_Write (fault_os world cwd) (fs, 0, []) (Some a) dir = Ok ((fs', i', tr), e) ->
  open_after 0 tr = Some 0 /\
  forall t1 t2, tr = t1 ++ t2 -> exists n, open_after 0 t1 = Some n /\ n <= 1.
Proof. exact src_Write_fault_fd_bounded. Qed.
Print Assumptions C15_source_write_fault_fd_bounded.

Theorem C15_source_write_fault_error_prefix : forall world cwd fs dir a fs' i' tr e,
  tw_Write (fault_os world cwd) (fs, 0, []) (Some a) dir = Ok ((fs', i', tr), e) -> dec_fres e <> FR WOk ->
  exists k fsk, k < length (files a) /\
    write_gen the_guard the_flags cwd fs dir (firstn k (files a)) = (fsk, WOk) /\
    ext (leftover cwd dir (nth k (files a) ([], []))) fsk fs'.
Proof. exact src_Write_fault_error_prefix. Qed.
Print Assumptions C15_source_write_fault_error_prefix.

Theorem C15_source_write_fault_contained : forall world cwd fs dir a fs' i' tr e,
  is_abs dir = true -> tw_Write (fault_os world cwd) (fs, 0, []) (Some a) dir = Ok ((fs', i', tr), e) ->
  forall p, get fs' p <> get fs p ->
    get fs p = None /\
    (within (resolve cwd dir) p \/ (get fs' p = Some Dir /\ within p (resolve cwd dir))).
Proof. exact src_Write_fault_contained. Qed.
Print Assumptions C15_source_write_fault_contained.

Theorem C15_source_write_fault_never_overwrites : forall world cwd fs dir a fs' i' tr e,
  tw_Write (fault_os world cwd) (fs, 0, []) (Some a) dir = Ok ((fs', i', tr), e) ->
  forall p x, get fs p = Some x -> get fs' p = Some x.
Proof. exact src_Write_fault_never_overwrites. Qed.
Print Assumptions C15_source_write_fault_never_overwrites.

(* txtar.ParseFile as translated: ReadFile, then Parse of everything it returned *)
Theorem C15_source_parse_file_eq : forall (OS : fs_ops) w file,
  tw_ParseFile OS w file = Ok (parse_file_ops OS file w).
Proof. exact src_ParseFile_eq. Qed.
Print Assumptions C15_source_parse_file_eq.

(* The walk function of cmd/txtar-c as translated (the literal main hands to filepath.Walk, a
   function of the archive it appends to, of dir, of the two flags and of its parameters) IS the
   reference walk_fn_ops (SrcWorld.v), for every record of operations: an incoming error is
   handed back; the root is passed over; a dot name is skipped unless -a (SkipDir for a
   directory); a non-regular file is passed over; the file is read; then the model's
   [file_entry] decides on the name relative to the root -- invalid UTF-8 dropped, the final
   newline added, a file with a marker line quoted with -quote (and its "unquote NAME" comment
   line) or dropped -- and the entry is appended with its name through ToSlash. *)
Theorem C15_source_walkfn_eq : forall (OS : fs_ops) fl w a dir path info err,
  tc_main_walkfn OS (f_quote fl) (f_all fl) w (Some a) dir path info err =
  Ok (match walk_fn_ops OS fl w a dir path info err with (w', a', e) => (w', Some a', e) end).
Proof. exact src_walkfn_eq. Qed.
Print Assumptions C15_source_walkfn_eq.

(* txtar-c between flag.Parse and Format, with the translated walk function: the hand-modelled
   filepath.Walk (SrcWalk.walk_root) over a tree in Walk's order, reading the files from a file
   system that holds them, builds exactly the model's archive savedir_tree (any directory
   argument that does not clean to "/") *)
Theorem C15_source_savedir_walk_eq : forall cwd fl d0 fs,
  bytes_eqb (clean d0) [SEP] = false ->
  forall rt, rnode_walkable (RDir rt) -> readable cwd d0 fs [] (RDir rt) ->
  src_savedir_walk cwd fl fs (clean d0) rt = Ok ((fs, Some (savedir_tree fl rt)), WNil).
Proof. exact src_savedir_walk_eq. Qed.
Print Assumptions C15_source_savedir_walk_eq.

(* THE ROUND TRIP ON THE TRANSLATED PIECES: the translated walk function under Walk builds an
   archive a; the translated Write, given Parse (Format a), succeeds over the file-system model;
   conclusion as in C15_savedir_extract.  Hand-modelled glue that remains: filepath.Walk's
   traversal (SrcWalk.v), flag parsing and the main functions (Cli.v), x/tools Format, the file
   system. *)
Theorem C15_source_roundtrip : forall fl rt cwdc fsc d0 cwd fs xdir,
  bytes_eqb (clean d0) [SEP] = false ->
  rnode_walkable (RDir rt) -> readable cwdc d0 fsc [] (RDir rt) ->
  Forall real cwd -> Forall nul_free cwd -> has_nul xdir = false -> tree_ok (rflat [] (RDir rt)) ->
  dir_exists fs (resolve cwd xdir) ->
  (forall q, beneath (resolve cwd xdir) q -> get fs q = None) ->
  exists a fs',
    src_savedir_walk cwdc fl fsc (clean d0) rt = Ok ((fsc, Some a), WNil) /\
    tw_Write (model_fs cwd) fs (go_txtar_Parse (format a)) xdir = Ok (fs', WNil) /\
    (forall p d cl n s, In (p, d) (rflat [] (RDir rt)) -> savedir_entry fl (p, d) = Some (cl, (n, s)) ->
       get fs' (resolve cwd xdir ++ p) = Some (File s) /\
       restored (comment (parse (format a))) n s = Some (fix_nl d)) /\
    (forall q x, beneath (resolve cwd xdir) q -> get fs' q = Some x ->
       exists p d e, In (p, d) (rflat [] (RDir rt)) /\ savedir_entry fl (p, d) = Some e /\
         ((q = resolve cwd xdir ++ p /\ exists s, x = File s) \/
          (x = Dir /\ proper q (resolve cwd xdir ++ p)))).
Proof. exact src_roundtrip. Qed.
Print Assumptions C15_source_roundtrip.

(* the earlier partial translation (Gen/TxtarWriteSrc.v: the statements of Write's loop body in
   front of os.MkdirAll, pure mode): they return the error exactly for the names the property
   excludes *)
Theorem C15_source_guard_rejects : forall dir nd,
  src_Write_before_os_MkdirAll dir nd = Ok (Return true) <->
  (is_abs (clean (fst nd)) = true \/ clean (fst nd) = dotdot \/ has_prefix dotdot_sep (clean (fst nd)) = true).
Proof. exact src_Write_guard_rejects. Qed.
Print Assumptions C15_source_guard_rejects.

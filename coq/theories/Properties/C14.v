(* C14 — txtar quoting: NeedsQuote is exact and Quote/Unquote are inverse.
   Only the property theorems, each closed by [exact] of a lemma proved in
   Txtar/TxtarFacts.v or Txtar/QuoteFacts.v, with Print Assumptions beneath it. *)
From Coq Require Import List.
From Coq.Strings Require Import Byte.
From GI Require Import Lib.Bytes Gen.TxtarConsts Txtar.Txtar Txtar.TxtarFacts Txtar.QuoteFacts
  Txtar.TxtarIndex Txtar.TxtarIndexFacts Txtar.TxtarHolds Txtar.TxtarHoldsFacts
  Lib.Utf8 Lib.Utf8Facts Lib.Utf8EncodeFacts Txtar.QuoteIndex Txtar.QuoteIndexFacts Lib.Utf8Go Lib.Utf8GoFacts
  Lib.GoSem Gen.TxtarSrc Txtar.SrcFacts.
Import ListNotations.

Theorem C14_needs_quote_exact : forall d,
  needs_quote d = true <-> exists l n, In l (split_lines d) /\ marker_line l = Some n.
Proof. exact needs_quote_exact. Qed.
Print Assumptions C14_needs_quote_exact.

Theorem C14_needs_quote_final_newline : forall d, needs_quote (fix_nl d) = needs_quote d.
Proof. exact needs_quote_fix_nl. Qed.
Print Assumptions C14_needs_quote_final_newline.

Theorem C14_needs_quote_semantic : forall n d,
  wf_name n = true ->
  (needs_quote d = false <->
   parse (format {| comment := []; files := [(n, d)] |})
   = {| comment := []; files := [(n, fix_nl d)] |}).
Proof. exact needs_quote_semantic. Qed.
Print Assumptions C14_needs_quote_semantic.

Theorem C14_unquote_quote : forall d q, quote d = Some q -> unquote q = Some d.
Proof. exact unquote_quote. Qed.
Print Assumptions C14_unquote_quote.

Theorem C14_quote_clean : forall d q c n,
  quote d = Some q -> wf_text c = true -> wf_name n = true ->
  needs_quote q = false /\
  parse (format {| comment := c; files := [(n, q)] |}) = {| comment := c; files := [(n, q)] |}.
Proof. exact quote_clean_survives. Qed.
Print Assumptions C14_quote_clean.

Theorem C14_quote_survives : forall d q c n fs1 fs2,
  quote d = Some q ->
  wf_archive {| comment := c; files := fs1 ++ fs2 |} = true -> wf_name n = true ->
  parse (format {| comment := c; files := fs1 ++ (n, q) :: fs2 |})
  = {| comment := c; files := fs1 ++ (n, q) :: fs2 |}.
Proof. exact quote_survives. Qed.
Print Assumptions C14_quote_survives.

Theorem C14_quote_refuses : forall d,
  quote d = None <-> d <> [] /\ (last_byte d <> Some NL \/ utf8_valid d = false).
Proof. exact quote_refuses. Qed.
Print Assumptions C14_quote_refuses.

(* ---- the statement-level (index-faithful) model of NeedsQuote, TxtarIndex.v ---- *)

Theorem C14_needs_quote_idx_eq : forall d, needs_quote_idx d = Ok (needs_quote d).
Proof. exact needs_quote_idx_eq. Qed.
Print Assumptions C14_needs_quote_idx_eq.

Theorem C14_holds_on : forall d, c14_holds_on d = true.
Proof. exact c14_holds_on_true. Qed.
Print Assumptions C14_holds_on.

(* ---- utf8.Valid (used by Quote) at rune level, Lib/Utf8.v ---- *)

(* the DFA utf8_valid of the model accepts exactly the byte strings that decode rune
   by rune without the error answer (RuneError, width 1) of utf8.DecodeRune *)
Theorem C14_utf8_valid_runes : forall d, utf8_valid d = true <-> valid_runes d.
Proof. exact utf8_valid_iff. Qed.
Print Assumptions C14_utf8_valid_runes.

Theorem C14_utf8_valid_runes_ok : forall d, utf8_valid d = runes_ok d.
Proof. exact utf8_valid_eq. Qed.
Print Assumptions C14_utf8_valid_runes_ok.

(* ... and a rune decodes without error exactly when the input starts with the
   shortest-form encoding of a Unicode scalar value (no overlong form, no surrogate,
   nothing above U+10FFFF) *)
Theorem C14_decode_rune_spec : forall d r w,
  (decode_rune d = Some (r, w) /\ is_err1 (r, w) = false) <->
  (is_scalar r = true /\ w = rune_len r /\ exists rest, d = encode_rune r ++ rest).
Proof. exact decode_rune_spec. Qed.
Print Assumptions C14_decode_rune_spec.

(* ---- Quote / Unquote at statement level (QuoteIndex.v): checked indexing, bytes.Count and
   the allocate-and-copy loop of bytes.Replace, bytes.TrimPrefix; the literals regenerated ---- *)

Theorem C14_quote_idx_eq : forall d, quote_idx d = Ok (quote d).
Proof. exact quote_idx_eq. Qed.
Print Assumptions C14_quote_idx_eq.

Theorem C14_unquote_idx_eq : forall d, unquote_idx d = Ok (unquote d).
Proof. exact unquote_idx_eq. Qed.
Print Assumptions C14_unquote_idx_eq.

(* utf8.DecodeRune as the standard library codes it -- the regenerated tables first / acceptRanges,
   the mask-and-or trick, shifts and ors -- never indexes out of range and is decode_rune *)
Theorem C14_decode_rune_tab_eq : forall p,
  decode_rune_tab p = match decode_rune p with Some (r, w) => DOk r w | None => DEmpty end.
Proof. exact decode_rune_tab_eq. Qed.
Print Assumptions C14_decode_rune_tab_eq.

(* ---- NeedsQuote, Quote, Unquote as TRANSLATED from the Go source text on every run (Gen/TxtarSrc.v,
   made by harness/go2coq in the vocabulary of Lib/GoSem.v), proved equal on every input to the
   statement-level models and hence to needs_quote / quote / unquote.  An ([]byte, error) result is
   the pair (bytes, is-error): err_pair (Some q) = (q, false), err_pair None = ([], true). ---- *)

Theorem C14_source_needs_quote_eq : forall fuel d,
  length d + 1 <= fuel -> src_NeedsQuote fuel d = Ok (needs_quote d).
Proof. exact src_NeedsQuote_eq. Qed.
Print Assumptions C14_source_needs_quote_eq.

Theorem C14_source_quote_eq : forall d, src_Quote d = Ok (err_pair (quote d)).
Proof. exact src_Quote_eq. Qed.
Print Assumptions C14_source_quote_eq.

Theorem C14_source_unquote_eq : forall d, src_Unquote d = Ok (err_pair (unquote d)).
Proof. exact src_Unquote_eq. Qed.
Print Assumptions C14_source_unquote_eq.

Theorem C14_source_quote_idx_eq : forall d,
  src_Quote d = match quote_idx d with Ok o => Ok (err_pair o) | Panic => Panic | OutOfFuel => OutOfFuel end.
Proof. exact src_Quote_idx_eq. Qed.
Print Assumptions C14_source_quote_idx_eq.

Theorem C14_source_unquote_idx_eq : forall d,
  src_Unquote d = match unquote_idx d with Ok o => Ok (err_pair o) | Panic => Panic | OutOfFuel => OutOfFuel end.
Proof. exact src_Unquote_idx_eq. Qed.
Print Assumptions C14_source_unquote_idx_eq.

Theorem C14_source_unquote_quote : forall d q, src_Quote d = Ok (q, false) -> src_Unquote q = Ok (d, false).
Proof. exact src_Unquote_Quote. Qed.
Print Assumptions C14_source_unquote_quote.

(* C14 — txtar quoting: NeedsQuote is exact and Quote/Unquote are inverse. *)
From Coq Require Import List.
From Coq.Strings Require Import Byte.
From GI Require Import Lib.Bytes Gen.TxtarConsts Txtar.Txtar Txtar.TxtarFacts.
Import ListNotations.

Theorem C14_placeholder_crlf : forall l,
  last_byte l <> Some CR -> marker_line (l ++ [CR; NL]) = marker_line (l ++ [NL]).
Proof. exact marker_line_crlf. Qed.
Print Assumptions C14_placeholder_crlf.

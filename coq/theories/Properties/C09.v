(* C09 — par.Work runs every item exactly once and returns only when all are done.
   This file contains only the property theorems, each closed by [exact] of a lemma proved in
   Par/ParWorkProofs.v, with Print Assumptions beneath it.  [reachable n children inits s]: s is
   reached from the state right after Do's prologue (n runners at the loop head, the initial
   Adds done) by some schedule of atomic steps; every theorem is for all n >= work_do_min_n,
   all item graphs [children], all initial items and all schedules. *)
From Coq Require Import List Arith.
From GI Require Import Gen.ParConsts Par.ParWork Par.ParWorkProofs.
Import ListNotations.

Theorem C09_runner_count : forall n, work_do_min_n <= n ->
  work_do_spawned n + work_do_inline_runners = n /\ work_running_is_n = true.
Proof. exact runner_count. Qed.
Print Assumptions C09_runner_count.

Theorem C09_add_signals_per_item : work_add_signals_when_waiting = true.
Proof. exact add_signal_guard. Qed.
Print Assumptions C09_add_signals_per_item.

Theorem C09_exactly_once : forall (n : nat) (children : nat -> list nat) (inits : list nat),
  work_do_min_n <= n ->
  forall s : state, reachable n children inits s ->
  NoDup (added s) /\ NoDup (started s) /\ NoDup (finished s) /\
  (forall i, In i (added s) -> occ i (todo s) + cnt (is_run_of i) (pcs s) + occ i (finished s) = 1) /\
  (forall i, In i (todo s) \/ 0 < cnt (is_run_of i) (pcs s) \/ In i (started s) \/ In i (finished s) ->
     In i (added s) /\ reach children inits i).
Proof. exact exactly_once_safety. Qed.
Print Assumptions C09_exactly_once.

Theorem C09_at_most_n : forall (n : nat) (children : nat -> list nat) (inits : list nat),
  work_do_min_n <= n ->
  forall s : state, reachable n children inits s -> length (pcs s) = n /\ cnt is_run (pcs s) <= n.
Proof. exact at_most_n_running. Qed.
Print Assumptions C09_at_most_n.

Theorem C09_do_returns_when_done : forall (n : nat) (children : nat -> list nat) (inits : list nat),
  work_do_min_n <= n ->
  forall s : state, reachable n children inits s -> nth_error (pcs s) 0 = Some Done ->
  todo s = [] /\ cnt is_run (pcs s) = 0 /\
  (forall i, reach children inits i <-> In i (finished s)) /\ NoDup (finished s) /\
  (forall t p, nth_error (pcs s) t = Some p -> p = Woken \/ p = Done).
Proof. exact do_returns. Qed.
Print Assumptions C09_do_returns_when_done.

Theorem C09_any_runner_returns_when_done : forall (n : nat) (children : nat -> list nat) (inits : list nat),
  work_do_min_n <= n ->
  forall (s : state) (t : nat), reachable n children inits s -> nth_error (pcs s) t = Some Done ->
  todo s = [] /\ cnt is_run (pcs s) = 0 /\ cnt is_parked (pcs s) = 0 /\ cnt is_top (pcs s) = 0 /\
  (forall i, reach children inits i <-> In i (finished s)) /\ NoDup (finished s).
Proof. exact do_returns_when_done. Qed.
Print Assumptions C09_any_runner_returns_when_done.

Theorem C09_no_deadlock : forall (n : nat) (children : nat -> list nat) (inits : list nat),
  work_do_min_n <= n ->
  forall s : state, reachable n children inits s ->
  all_done s = true \/ (exists (t c : nat) (s' : state), step n children s (t, c) = Some s').
Proof. exact no_deadlock. Qed.
Print Assumptions C09_no_deadlock.

Theorem C09_no_lost_wakeup : forall (n : nat) (children : nat -> list nat) (inits : list nat),
  work_do_min_n <= n ->
  forall s : state, reachable n children inits s -> todo s <> [] ->
  cnt is_parked (pcs s) < n /\
  (exists (t : nat) (p : pc), nth_error (pcs s) t = Some p /\ (is_top p || is_woken p || is_run p)%bool = true).
Proof. exact no_lost_wakeup. Qed.
Print Assumptions C09_no_lost_wakeup.

Theorem C09_wakeup_per_item : forall (n : nat) (children : nat -> list nat) (inits : list nat),
  work_do_min_n <= n ->
  forall s : state, reachable n children inits s -> 0 < cnt is_parked (pcs s) ->
  length (todo s) <= cnt is_top (pcs s) + cnt is_woken (pcs s).
Proof. exact wakeup_per_item. Qed.
Print Assumptions C09_wakeup_per_item.

Theorem C09_wakeup_ok_on_reachable_states : forall (n : nat) (children : nat -> list nat) (inits : list nat),
  work_do_min_n <= n ->
  forall s : state, reachable n children inits s -> wakeup_ok s = true.
Proof. exact wakeup_ok_reachable. Qed.
Print Assumptions C09_wakeup_ok_on_reachable_states.

Theorem C09_queued_items_get_runners : forall (n : nat) (children : nat -> list nat) (inits : list nat),
  work_do_min_n <= n ->
  forall s : state, reachable n children inits s ->
  exists (sch : list (nat * nat)) (s' : state),
    run n children sch s = Some s' /\ (todo s' = [] \/ cnt is_run (pcs s') = n) /\
    added s' = added s /\ finished s' = finished s /\ length sch + length (todo s') = length (todo s) /\
    cnt is_run (pcs s') = cnt is_run (pcs s) + length sch.
Proof. exact queued_items_get_runners. Qed.
Print Assumptions C09_queued_items_get_runners.

Theorem C09_stuck_is_final : forall (n : nat) (children : nat -> list nat) (inits : list nat),
  work_do_min_n <= n ->
  forall s : state, reachable n children inits s ->
  (forall t c : nat, step n children s (t, c) = None) -> all_done s = true.
Proof. exact stuck_is_final. Qed.
Print Assumptions C09_stuck_is_final.

Theorem C09_enabled_exact : forall (n : nat) (children : nat -> list nat) (inits : list nat),
  work_do_min_n <= n ->
  forall (s : state) (t : nat), reachable n children inits s ->
  enabled s t = true <-> (exists (c : nat) (s' : state), step n children s (t, c) = Some s').
Proof. exact enabled_spec. Qed.
Print Assumptions C09_enabled_exact.

Theorem C09_terminates : forall (n : nat) (children : nat -> list nat) (inits : list nat),
  work_do_min_n <= n ->
  forall U : list nat, NoDup U -> (forall i, In i inits -> In i U) ->
  (forall i c, In i U -> In c (children i) -> In c U) ->
  forall (s : state) (t c : nat) (s' : state), reachable n children inits s ->
  step n children s (t, c) = Some s' -> phi n children U s' < phi n children U s.
Proof. exact phi_decreases. Qed.
Print Assumptions C09_terminates.

Theorem C09_schedules_finite : forall (n : nat) (children : nat -> list nat) (inits : list nat),
  work_do_min_n <= n ->
  forall U : list nat, NoDup U -> (forall i, In i inits -> In i U) ->
  (forall i c, In i U -> In c (children i) -> In c U) ->
  forall (sch : list (nat * nat)) (s s' : state), reachable n children inits s ->
  run n children sch s = Some s' -> length sch + phi n children U s' <= phi n children U s.
Proof. exact terminates. Qed.
Print Assumptions C09_schedules_finite.

Theorem C09_can_finish : forall (n : nat) (children : nat -> list nat) (inits : list nat),
  work_do_min_n <= n ->
  forall U : list nat, NoDup U -> (forall i, In i inits -> In i U) ->
  (forall i c, In i U -> In c (children i) -> In c U) ->
  forall s : state, reachable n children inits s ->
  exists (sch : list (nat * nat)) (s' : state),
    run n children sch s = Some s' /\ all_done s' = true /\ length sch <= phi n children U s.
Proof. exact can_finish. Qed.
Print Assumptions C09_can_finish.

(* C09 — par.Work runs every item exactly once and returns only when all are done.
   This file contains only the property theorems, each closed by [exact] of a lemma proved in
   Par/ParWorkProofs.v, with Print Assumptions beneath it.  [reachable n children inits s]: s is
   reached from the state right after Do's prologue (n runners at the loop head, the initial
   Adds done) by some schedule of atomic steps; every theorem is for all n >= work_do_min_n,
   all item graphs [children], all initial items and all schedules.

   The second half is about SEVERAL Work values in one program (Par/ParWorkMulti.v).  [wreachable cfgs ws]: the world
   ws of Work objects with configurations cfgs (object k: Do(wn), item graph wchildren, initial Adds winits; wU a finite
   universe of its items) is reached from all objects freshly filled by some interleaving of steps of the objects --
   used one after the other, filled together, run concurrently: all are such interleavings.  [nreachable n children
   inits inner ns]: ns is reached by the program in which f(i) of the outer Work, after its Adds, runs the fresh inner
   Work [inner i] and returns when that Do returned.  [good cf]: n >= work_do_min_n and wU is duplicate-free, contains
   the initial items and is closed under children. *)
From Coq Require Import List Arith.
From GI Require Import Gen.ParConsts Par.ParWork Par.ParWorkProofs.
From GI Require Import Par.ParWorkMulti Par.ParWorkMultiProofs.
Import ListNotations.

Theorem C09_runner_count : forall n, work_do_min_n <= n ->
  work_do_spawned n + work_do_inline_runners = n /\ work_running_is_n = true.
Proof. exact runner_count. Qed.
Print Assumptions C09_runner_count.

Theorem C09_add_signals_per_item : work_add_signals_when_waiting = true.
Proof. exact add_signal_guard. Qed.
Print Assumptions C09_add_signals_per_item.

Theorem C09_exactly_once : forall (n : nat) (children : nat -> list nat) (inits : list nat),
  work_do_min_n <= n ->
  forall s : state, reachable n children inits s ->
  NoDup (added s) /\ NoDup (started s) /\ NoDup (finished s) /\
  (forall i, In i (added s) -> occ i (todo s) + cnt (is_run_of i) (pcs s) + occ i (finished s) = 1) /\
  (forall i, In i (todo s) \/ 0 < cnt (is_run_of i) (pcs s) \/ In i (started s) \/ In i (finished s) ->
     In i (added s) /\ reach children inits i).
Proof. exact exactly_once_safety. Qed.
Print Assumptions C09_exactly_once.

Theorem C09_at_most_n : forall (n : nat) (children : nat -> list nat) (inits : list nat),
  work_do_min_n <= n ->
  forall s : state, reachable n children inits s -> length (pcs s) = n /\ cnt is_run (pcs s) <= n.
Proof. exact at_most_n_running. Qed.
Print Assumptions C09_at_most_n.

Theorem C09_do_returns_when_done : forall (n : nat) (children : nat -> list nat) (inits : list nat),
  work_do_min_n <= n ->
  forall s : state, reachable n children inits s -> nth_error (pcs s) 0 = Some Done ->
  todo s = [] /\ cnt is_run (pcs s) = 0 /\
  (forall i, reach children inits i <-> In i (finished s)) /\ NoDup (finished s) /\
  (forall t p, nth_error (pcs s) t = Some p -> p = Woken \/ p = Done).
Proof. exact do_returns. Qed.
Print Assumptions C09_do_returns_when_done.

Theorem C09_any_runner_returns_when_done : forall (n : nat) (children : nat -> list nat) (inits : list nat),
  work_do_min_n <= n ->
  forall (s : state) (t : nat), reachable n children inits s -> nth_error (pcs s) t = Some Done ->
  todo s = [] /\ cnt is_run (pcs s) = 0 /\ cnt is_parked (pcs s) = 0 /\ cnt is_top (pcs s) = 0 /\
  (forall i, reach children inits i <-> In i (finished s)) /\ NoDup (finished s).
Proof. exact do_returns_when_done. Qed.
Print Assumptions C09_any_runner_returns_when_done.

Theorem C09_no_deadlock : forall (n : nat) (children : nat -> list nat) (inits : list nat),
  work_do_min_n <= n ->
  forall s : state, reachable n children inits s ->
  all_done s = true \/ (exists (t c : nat) (s' : state), step n children s (t, c) = Some s').
Proof. exact no_deadlock. Qed.
Print Assumptions C09_no_deadlock.

Theorem C09_no_lost_wakeup : forall (n : nat) (children : nat -> list nat) (inits : list nat),
  work_do_min_n <= n ->
  forall s : state, reachable n children inits s -> todo s <> [] ->
  cnt is_parked (pcs s) < n /\
  (exists (t : nat) (p : pc), nth_error (pcs s) t = Some p /\ (is_top p || is_woken p || is_run p)%bool = true).
Proof. exact no_lost_wakeup. Qed.
Print Assumptions C09_no_lost_wakeup.

Theorem C09_wakeup_per_item : forall (n : nat) (children : nat -> list nat) (inits : list nat),
  work_do_min_n <= n ->
  forall s : state, reachable n children inits s -> 0 < cnt is_parked (pcs s) ->
  length (todo s) <= cnt is_top (pcs s) + cnt is_woken (pcs s).
Proof. exact wakeup_per_item. Qed.
Print Assumptions C09_wakeup_per_item.

Theorem C09_wakeup_ok_on_reachable_states : forall (n : nat) (children : nat -> list nat) (inits : list nat),
  work_do_min_n <= n ->
  forall s : state, reachable n children inits s -> wakeup_ok s = true.
Proof. exact wakeup_ok_reachable. Qed.
Print Assumptions C09_wakeup_ok_on_reachable_states.

Theorem C09_queued_items_get_runners : forall (n : nat) (children : nat -> list nat) (inits : list nat),
  work_do_min_n <= n ->
  forall s : state, reachable n children inits s ->
  exists (sch : list (nat * nat)) (s' : state),
    run n children sch s = Some s' /\ (todo s' = [] \/ cnt is_run (pcs s') = n) /\
    added s' = added s /\ finished s' = finished s /\ length sch + length (todo s') = length (todo s) /\
    cnt is_run (pcs s') = cnt is_run (pcs s) + length sch.
Proof. exact queued_items_get_runners. Qed.
Print Assumptions C09_queued_items_get_runners.

Theorem C09_stuck_is_final : forall (n : nat) (children : nat -> list nat) (inits : list nat),
  work_do_min_n <= n ->
  forall s : state, reachable n children inits s ->
  (forall t c : nat, step n children s (t, c) = None) -> all_done s = true.
Proof. exact stuck_is_final. Qed.
Print Assumptions C09_stuck_is_final.

Theorem C09_enabled_exact : forall (n : nat) (children : nat -> list nat) (inits : list nat),
  work_do_min_n <= n ->
  forall (s : state) (t : nat), reachable n children inits s ->
  enabled s t = true <-> (exists (c : nat) (s' : state), step n children s (t, c) = Some s').
Proof. exact enabled_spec. Qed.
Print Assumptions C09_enabled_exact.

Theorem C09_terminates : forall (n : nat) (children : nat -> list nat) (inits : list nat),
  work_do_min_n <= n ->
  forall U : list nat, NoDup U -> (forall i, In i inits -> In i U) ->
  (forall i c, In i U -> In c (children i) -> In c U) ->
  forall (s : state) (t c : nat) (s' : state), reachable n children inits s ->
  step n children s (t, c) = Some s' -> phi n children U s' < phi n children U s.
Proof. exact phi_decreases. Qed.
Print Assumptions C09_terminates.

Theorem C09_schedules_finite : forall (n : nat) (children : nat -> list nat) (inits : list nat),
  work_do_min_n <= n ->
  forall U : list nat, NoDup U -> (forall i, In i inits -> In i U) ->
  (forall i c, In i U -> In c (children i) -> In c U) ->
  forall (sch : list (nat * nat)) (s s' : state), reachable n children inits s ->
  run n children sch s = Some s' -> length sch + phi n children U s' <= phi n children U s.
Proof. exact terminates. Qed.
Print Assumptions C09_schedules_finite.

Theorem C09_can_finish : forall (n : nat) (children : nat -> list nat) (inits : list nat),
  work_do_min_n <= n ->
  forall U : list nat, NoDup U -> (forall i, In i inits -> In i U) ->
  (forall i c, In i U -> In c (children i) -> In c U) ->
  forall s : state, reachable n children inits s ->
  exists (sch : list (nat * nat)) (s' : state),
    run n children sch s = Some s' /\ all_done s' = true /\ length sch <= phi n children U s.
Proof. exact can_finish. Qed.
Print Assumptions C09_can_finish.

(* ---------------------------------------------------------------- several Work values in one program *)

Theorem C09_works_independent : forall (cfgs : list wcfg) (ws : world) (k : nat) (tc : nat * nat) (ws' : world),
  wstep cfgs ws (k, tc) = Some ws' ->
  length ws' = length ws /\
  (forall k', k' <> k -> nth_error ws' k' = nth_error ws k') /\
  (exists cf s s', nth_error cfgs k = Some cf /\ nth_error ws k = Some s /\ cfg_step cf s tc = Some s' /\
                   nth_error ws' k = Some s').
Proof. exact works_independent. Qed.
Print Assumptions C09_works_independent.

Theorem C09_world_is_product : forall (cfgs : list wcfg) (ws : world),
  wreachable cfgs ws <-> Forall2 (fun cf s => reachable (wn cf) (wchildren cf) (winits cf) s) cfgs ws.
Proof. exact world_reachable_iff. Qed.
Print Assumptions C09_world_is_product.

Theorem C09_each_work_correct_among_others : forall cfgs : list wcfg, Forall good cfgs ->
  forall ws : world, wreachable cfgs ws ->
  forall (k : nat) (cf : wcfg) (s : state), nth_error cfgs k = Some cf -> nth_error ws k = Some s ->
  NoDup (started s) /\ NoDup (finished s) /\
  (forall i, In i (started s) \/ In i (finished s) -> reach (wchildren cf) (winits cf) i) /\
  cnt is_run (pcs s) <= wn cf /\
  (nth_error (pcs s) 0 = Some Done ->
     todo s = [] /\ cnt is_run (pcs s) = 0 /\ forall i, reach (wchildren cf) (winits cf) i <-> In i (finished s)).
Proof. exact world_objects_correct. Qed.
Print Assumptions C09_each_work_correct_among_others.

Theorem C09_world_no_deadlock : forall cfgs : list wcfg, Forall good cfgs ->
  forall ws : world, wreachable cfgs ws ->
  wall_done ws = true \/ (exists l ws', wstep cfgs ws l = Some ws').
Proof. exact world_no_deadlock. Qed.
Print Assumptions C09_world_no_deadlock.

Theorem C09_world_terminates : forall cfgs : list wcfg, Forall good cfgs ->
  forall (ws : world) (l : nat * (nat * nat)) (ws' : world), wreachable cfgs ws ->
  wstep cfgs ws l = Some ws' -> wphi cfgs ws' < wphi cfgs ws.
Proof. exact world_phi_decreases. Qed.
Print Assumptions C09_world_terminates.

Theorem C09_world_schedules_finite : forall cfgs : list wcfg, Forall good cfgs ->
  forall (sch : list (nat * (nat * nat))) (ws ws' : world), wreachable cfgs ws ->
  wrun cfgs sch ws = Some ws' -> length sch + wphi cfgs ws' <= wphi cfgs ws.
Proof. exact world_schedules_finite. Qed.
Print Assumptions C09_world_schedules_finite.

Theorem C09_world_can_finish : forall cfgs : list wcfg, Forall good cfgs ->
  forall ws : world, wreachable cfgs ws ->
  exists sch ws', wrun cfgs sch ws = Some ws' /\ wall_done ws' = true /\ length sch <= wphi cfgs ws.
Proof. exact world_can_finish. Qed.
Print Assumptions C09_world_can_finish.

(* ---------------------------------------------------------------- Works nested inside f of another Work *)

Theorem C09_nested_projection : forall (n : nat) (children : nat -> list nat) (inits : list nat) (inner : nat -> wcfg),
  work_do_min_n <= n -> (forall i, good (inner i)) ->
  forall ns : nstate, nreachable n children inits inner ns ->
  reachable n children inits (outer ns) /\
  (forall i si, inn ns i = Some si ->
     reachable (wn (inner i)) (wchildren (inner i)) (winits (inner i)) si /\ In i (started (outer ns))) /\
  (forall i, In i (finished (outer ns)) -> exists si, inn ns i = Some si /\ nth_error (pcs si) 0 = Some Done).
Proof. exact nested_projection. Qed.
Print Assumptions C09_nested_projection.

Theorem C09_nested_frame : forall (n : nat) (children : nat -> list nat) (inner : nat -> wcfg)
  (ns : nstate) (l : nlabel) (ns' : nstate), nstep n children inner ns l = Some ns' ->
  match l with
  | LInner i _ _ => outer ns' = outer ns /\ forall x, x <> i -> inn ns' x = inn ns x
  | LOuter _ _ => forall x sx, inn ns x = Some sx -> inn ns' x = Some sx
  end.
Proof. exact nested_frame. Qed.
Print Assumptions C09_nested_frame.

Theorem C09_nested_do_returns_when_all_levels_done :
  forall (n : nat) (children : nat -> list nat) (inits : list nat) (inner : nat -> wcfg),
  work_do_min_n <= n -> (forall i, good (inner i)) ->
  forall ns : nstate, nreachable n children inits inner ns -> nth_error (pcs (outer ns)) 0 = Some Done ->
  forall i, reach children inits i ->
  exists si, inn ns i = Some si /\ nth_error (pcs si) 0 = Some Done /\ todo si = [] /\ cnt is_run (pcs si) = 0 /\
             (forall x, reach (wchildren (inner i)) (winits (inner i)) x <-> In x (finished si)) /\ NoDup (finished si).
Proof. exact nested_do_returns. Qed.
Print Assumptions C09_nested_do_returns_when_all_levels_done.

Theorem C09_nested_no_deadlock : forall (n : nat) (children : nat -> list nat) (inits : list nat) (inner : nat -> wcfg),
  work_do_min_n <= n -> (forall i, good (inner i)) ->
  forall ns : nstate, nreachable n children inits inner ns ->
  nfinal ns = true \/ (exists l ns', nstep n children inner ns l = Some ns').
Proof. exact nested_no_deadlock. Qed.
Print Assumptions C09_nested_no_deadlock.

Theorem C09_nested_final_state : forall (n : nat) (children : nat -> list nat) (inits : list nat) (inner : nat -> wcfg),
  work_do_min_n <= n -> (forall i, good (inner i)) ->
  forall ns : nstate, nreachable n children inits inner ns -> nfinal ns = true ->
  all_done (outer ns) = true /\
  (forall i si, inn ns i = Some si -> all_done si = true) /\
  (forall i, reach children inits i -> exists si, inn ns i = Some si /\ all_done si = true /\
     (forall x, reach (wchildren (inner i)) (winits (inner i)) x <-> In x (finished si))).
Proof. exact nested_final_spec. Qed.
Print Assumptions C09_nested_final_state.

Theorem C09_nested_terminates : forall (n : nat) (children : nat -> list nat) (inits : list nat) (inner : nat -> wcfg)
  (U : list nat), work_do_min_n <= n -> NoDup U -> (forall i, In i inits -> In i U) ->
  (forall i c, In i U -> In c (children i) -> In c U) -> (forall i, good (inner i)) ->
  forall (ns : nstate) (l : nlabel) (ns' : nstate), nreachable n children inits inner ns ->
  nstep n children inner ns l = Some ns' -> nphi n children inner U ns' < nphi n children inner U ns.
Proof. exact nested_phi_decreases. Qed.
Print Assumptions C09_nested_terminates.

Theorem C09_nested_schedules_finite : forall (n : nat) (children : nat -> list nat) (inits : list nat)
  (inner : nat -> wcfg) (U : list nat), work_do_min_n <= n -> NoDup U -> (forall i, In i inits -> In i U) ->
  (forall i c, In i U -> In c (children i) -> In c U) -> (forall i, good (inner i)) ->
  forall (sch : list nlabel) (ns ns' : nstate), nreachable n children inits inner ns ->
  nrun n children inner sch ns = Some ns' -> length sch + nphi n children inner U ns' <= nphi n children inner U ns.
Proof. exact nested_schedules_finite. Qed.
Print Assumptions C09_nested_schedules_finite.

Theorem C09_nested_can_finish : forall (n : nat) (children : nat -> list nat) (inits : list nat)
  (inner : nat -> wcfg) (U : list nat), work_do_min_n <= n -> NoDup U -> (forall i, In i inits -> In i U) ->
  (forall i c, In i U -> In c (children i) -> In c U) -> (forall i, good (inner i)) ->
  forall ns : nstate, nreachable n children inits inner ns ->
  exists sch ns', nrun n children inner sch ns = Some ns' /\ nfinal ns' = true /\
                  length sch <= nphi n children inner U ns.
Proof. exact nested_can_finish. Qed.
Print Assumptions C09_nested_can_finish.

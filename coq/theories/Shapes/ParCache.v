(* RECORDED by tools/shapes.py record ParCache: the canonical text (shapes/ParCache.txt) of every function
   of /repo that the hand-written model of this group mirrors, as SHA-256 digests, at the source
   version the model was written against / last reviewed against.  Gen/ShapeParCache.v is regenerated
   from the checked tree on every run; the lemma below is the obligation that the two agree:
   an edited function re-opens it (tools/shapes.py diff ParCache shows the edit). *)
From Coq Require Import List.
From Coq.Strings Require Import Byte.
From GI Require Import Gen.ShapeParCache.
Import ListNotations.

Definition expected_shape_table : list (list byte * list byte) :=
  [(* par/work.go:<package-level declarations> *) ([x70; x61; x72; x2f; x77; x6f; x72; x6b; x2e; x67; x6f; x3a; x3c; x70; x61; x63; x6b; x61; x67; x65; x2d; x6c; x65; x76; x65; x6c; x20; x64; x65; x63; x6c; x61; x72; x61; x74; x69; x6f; x6e; x73; x3e],
      [x39; x31; x39; x61; x37; x66; x36; x37; x63; x38; x34; x31; x34; x35; x39; x63; x62; x39; x35; x39; x31; x62; x32; x65; x37; x62; x31; x32; x62; x35; x35; x66; x65; x35; x66; x63; x64; x65; x64; x37; x37; x31; x30; x66; x62; x30; x32; x61; x39; x65; x34; x66; x33; x62; x34; x35; x61; x31; x62; x65; x33; x66; x64; x32]);
   (* par/work.go:Cache.Do *) ([x70; x61; x72; x2f; x77; x6f; x72; x6b; x2e; x67; x6f; x3a; x43; x61; x63; x68; x65; x2e; x44; x6f],
      [x30; x36; x36; x39; x35; x64; x35; x33; x36; x32; x32; x36; x63; x38; x39; x35; x35; x63; x34; x63; x61; x62; x65; x30; x66; x33; x65; x61; x32; x61; x32; x35; x62; x34; x32; x35; x62; x30; x33; x37; x30; x62; x38; x36; x37; x37; x63; x32; x66; x33; x32; x38; x36; x31; x37; x61; x66; x34; x34; x35; x66; x62; x63; x37]);
   (* par/work.go:Cache.Get *) ([x70; x61; x72; x2f; x77; x6f; x72; x6b; x2e; x67; x6f; x3a; x43; x61; x63; x68; x65; x2e; x47; x65; x74],
      [x31; x64; x63; x37; x39; x30; x31; x39; x39; x36; x62; x64; x35; x39; x32; x31; x62; x31; x31; x65; x65; x64; x64; x31; x30; x35; x38; x66; x30; x33; x33; x66; x65; x66; x38; x34; x30; x34; x31; x34; x37; x32; x61; x36; x64; x62; x39; x64; x65; x37; x35; x39; x30; x38; x66; x66; x63; x61; x30; x35; x37; x39; x66; x38])].

Lemma shapes_current : shape_table = expected_shape_table.
Proof. reflexivity. Qed.
Print Assumptions shapes_current.

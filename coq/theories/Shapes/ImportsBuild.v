(* RECORDED by tools/shapes.py record ImportsBuild: the canonical text (shapes/ImportsBuild.txt) of every function
   of /repo that the hand-written model of this group mirrors, as SHA-256 digests, at the source
   version the model was written against / last reviewed against.  Gen/ShapeImportsBuild.v is regenerated
   from the checked tree on every run; the lemma below is the obligation that the two agree:
   an edited function re-opens it (tools/shapes.py diff ImportsBuild shows the edit). *)
From Coq Require Import List.
From Coq.Strings Require Import Byte.
From GI Require Import Gen.ShapeImportsBuild.
Import ListNotations.

Definition expected_shape_table : list (list byte * list byte) :=
  [(* imports/build.go:<package-level declarations> *) ([x69; x6d; x70; x6f; x72; x74; x73; x2f; x62; x75; x69; x6c; x64; x2e; x67; x6f; x3a; x3c; x70; x61; x63; x6b; x61; x67; x65; x2d; x6c; x65; x76; x65; x6c; x20; x64; x65; x63; x6c; x61; x72; x61; x74; x69; x6f; x6e; x73; x3e],
      [x66; x39; x36; x61; x31; x34; x33; x65; x35; x64; x31; x38; x65; x35; x30; x32; x36; x61; x63; x31; x39; x66; x33; x65; x66; x35; x65; x32; x63; x35; x30; x32; x34; x39; x36; x61; x38; x61; x37; x33; x33; x64; x33; x38; x33; x34; x64; x34; x36; x62; x64; x66; x64; x66; x64; x62; x65; x35; x37; x62; x65; x37; x63; x65]);
   (* imports/build.go:MatchFile *) ([x69; x6d; x70; x6f; x72; x74; x73; x2f; x62; x75; x69; x6c; x64; x2e; x67; x6f; x3a; x4d; x61; x74; x63; x68; x46; x69; x6c; x65],
      [x64; x35; x36; x35; x34; x36; x37; x62; x39; x35; x62; x34; x37; x61; x35; x32; x61; x62; x34; x65; x31; x37; x32; x65; x39; x32; x64; x33; x38; x38; x31; x31; x35; x64; x30; x31; x39; x33; x38; x30; x33; x61; x34; x33; x61; x33; x62; x65; x62; x30; x61; x63; x63; x34; x65; x32; x38; x62; x39; x61; x64; x39; x36; x62]);
   (* imports/build.go:ShouldBuild *) ([x69; x6d; x70; x6f; x72; x74; x73; x2f; x62; x75; x69; x6c; x64; x2e; x67; x6f; x3a; x53; x68; x6f; x75; x6c; x64; x42; x75; x69; x6c; x64],
      [x36; x32; x34; x32; x39; x37; x33; x66; x38; x34; x32; x64; x30; x62; x66; x33; x36; x32; x39; x64; x33; x31; x37; x61; x30; x31; x64; x61; x66; x34; x39; x37; x61; x31; x30; x63; x36; x63; x39; x61; x38; x61; x37; x35; x32; x32; x37; x61; x62; x34; x37; x37; x33; x66; x37; x64; x64; x35; x37; x35; x39; x64; x38; x61]);
   (* imports/build.go:init *) ([x69; x6d; x70; x6f; x72; x74; x73; x2f; x62; x75; x69; x6c; x64; x2e; x67; x6f; x3a; x69; x6e; x69; x74],
      [x34; x32; x31; x34; x38; x31; x38; x64; x38; x34; x66; x62; x34; x32; x33; x37; x35; x34; x63; x35; x38; x62; x34; x39; x38; x33; x39; x37; x37; x61; x37; x30; x64; x37; x66; x62; x31; x35; x37; x61; x63; x37; x31; x35; x39; x66; x63; x65; x37; x31; x64; x63; x38; x62; x35; x63; x62; x38; x31; x64; x30; x65; x62; x63]);
   (* imports/build.go:matchTag *) ([x69; x6d; x70; x6f; x72; x74; x73; x2f; x62; x75; x69; x6c; x64; x2e; x67; x6f; x3a; x6d; x61; x74; x63; x68; x54; x61; x67],
      [x34; x38; x37; x61; x36; x39; x33; x63; x35; x62; x35; x36; x66; x36; x63; x32; x32; x31; x39; x30; x65; x36; x66; x64; x34; x63; x39; x37; x30; x62; x38; x62; x63; x36; x63; x63; x38; x39; x63; x64; x64; x32; x66; x36; x38; x32; x35; x39; x66; x38; x33; x35; x66; x63; x38; x31; x30; x32; x38; x33; x65; x62; x37; x30]);
   (* imports/build.go:matchTags *) ([x69; x6d; x70; x6f; x72; x74; x73; x2f; x62; x75; x69; x6c; x64; x2e; x67; x6f; x3a; x6d; x61; x74; x63; x68; x54; x61; x67; x73],
      [x61; x64; x64; x63; x34; x37; x34; x39; x39; x63; x33; x36; x38; x35; x66; x66; x30; x31; x65; x62; x31; x66; x39; x63; x38; x30; x32; x64; x35; x33; x31; x35; x34; x32; x34; x38; x61; x61; x64; x35; x30; x32; x37; x61; x32; x34; x32; x62; x64; x64; x63; x30; x35; x34; x65; x37; x37; x62; x65; x31; x36; x32; x37; x33]);
   (* imports/scan.go:<package-level declarations> *) ([x69; x6d; x70; x6f; x72; x74; x73; x2f; x73; x63; x61; x6e; x2e; x67; x6f; x3a; x3c; x70; x61; x63; x6b; x61; x67; x65; x2d; x6c; x65; x76; x65; x6c; x20; x64; x65; x63; x6c; x61; x72; x61; x74; x69; x6f; x6e; x73; x3e],
      [x38; x32; x34; x33; x35; x32; x33; x62; x65; x35; x33; x31; x35; x61; x32; x63; x32; x63; x63; x66; x66; x30; x36; x62; x39; x36; x34; x64; x39; x38; x39; x37; x36; x33; x65; x39; x31; x62; x34; x61; x66; x63; x36; x63; x61; x33; x38; x30; x33; x39; x30; x66; x30; x33; x65; x32; x30; x66; x65; x63; x34; x33; x37; x37]);
   (* imports/scan.go:ScanDir *) ([x69; x6d; x70; x6f; x72; x74; x73; x2f; x73; x63; x61; x6e; x2e; x67; x6f; x3a; x53; x63; x61; x6e; x44; x69; x72],
      [x62; x62; x62; x61; x31; x63; x61; x39; x62; x35; x32; x39; x65; x30; x34; x36; x38; x39; x62; x32; x34; x63; x65; x62; x35; x34; x36; x36; x37; x30; x64; x61; x65; x64; x39; x32; x63; x35; x37; x39; x30; x61; x32; x61; x38; x63; x33; x61; x39; x39; x65; x64; x35; x37; x31; x38; x64; x61; x30; x34; x38; x34; x35; x62]);
   (* imports/scan.go:ScanFiles *) ([x69; x6d; x70; x6f; x72; x74; x73; x2f; x73; x63; x61; x6e; x2e; x67; x6f; x3a; x53; x63; x61; x6e; x46; x69; x6c; x65; x73],
      [x63; x38; x64; x61; x30; x32; x37; x64; x61; x32; x37; x34; x66; x65; x65; x32; x33; x32; x34; x62; x34; x39; x32; x33; x63; x62; x32; x61; x38; x35; x64; x36; x33; x30; x63; x39; x63; x66; x39; x39; x37; x30; x32; x39; x32; x32; x62; x34; x33; x32; x64; x66; x66; x66; x65; x38; x35; x39; x36; x32; x66; x63; x36; x63]);
   (* imports/scan.go:keys *) ([x69; x6d; x70; x6f; x72; x74; x73; x2f; x73; x63; x61; x6e; x2e; x67; x6f; x3a; x6b; x65; x79; x73],
      [x62; x38; x62; x36; x61; x66; x66; x35; x64; x61; x65; x65; x39; x34; x31; x30; x61; x32; x62; x38; x33; x66; x66; x30; x30; x36; x31; x34; x66; x37; x34; x34; x61; x66; x31; x37; x65; x63; x37; x35; x62; x62; x31; x33; x38; x62; x36; x66; x61; x64; x35; x39; x62; x64; x66; x65; x63; x36; x63; x65; x39; x65; x31; x65]);
   (* imports/scan.go:scanFiles *) ([x69; x6d; x70; x6f; x72; x74; x73; x2f; x73; x63; x61; x6e; x2e; x67; x6f; x3a; x73; x63; x61; x6e; x46; x69; x6c; x65; x73],
      [x31; x36; x61; x35; x61; x64; x37; x33; x33; x33; x33; x34; x63; x31; x66; x62; x35; x64; x65; x63; x39; x35; x32; x62; x30; x61; x34; x64; x38; x36; x62; x61; x61; x39; x33; x37; x65; x66; x66; x32; x35; x36; x36; x35; x30; x35; x63; x66; x37; x35; x65; x31; x35; x66; x66; x66; x66; x63; x35; x35; x63; x39; x65; x63])].

Lemma shapes_current : shape_table = expected_shape_table.
Proof. reflexivity. Qed.
Print Assumptions shapes_current.

(* RECORDED by tools/shapes.py record Proxy: the canonical text (shapes/Proxy.txt) of every function
   of /repo that the hand-written model of this group mirrors, as SHA-256 digests, at the source
   version the model was written against / last reviewed against.  Gen/ShapeProxy.v is regenerated
   from the checked tree on every run; the lemma below is the obligation that the two agree:
   an edited function re-opens it (tools/shapes.py diff Proxy shows the edit). *)
From Coq Require Import List.
From Coq.Strings Require Import Byte.
From GI Require Import Gen.ShapeProxy.
Import ListNotations.

Definition expected_shape_table : list (list byte * list byte) :=
  [(* goproxytest/allhex.go:<package-level declarations> *) ([x67; x6f; x70; x72; x6f; x78; x79; x74; x65; x73; x74; x2f; x61; x6c; x6c; x68; x65; x78; x2e; x67; x6f; x3a; x3c; x70; x61; x63; x6b; x61; x67; x65; x2d; x6c; x65; x76; x65; x6c; x20; x64; x65; x63; x6c; x61; x72; x61; x74; x69; x6f; x6e; x73; x3e],
      [x65; x33; x62; x30; x63; x34; x34; x32; x39; x38; x66; x63; x31; x63; x31; x34; x39; x61; x66; x62; x66; x34; x63; x38; x39; x39; x36; x66; x62; x39; x32; x34; x32; x37; x61; x65; x34; x31; x65; x34; x36; x34; x39; x62; x39; x33; x34; x63; x61; x34; x39; x35; x39; x39; x31; x62; x37; x38; x35; x32; x62; x38; x35; x35]);
   (* goproxytest/allhex.go:allHex *) ([x67; x6f; x70; x72; x6f; x78; x79; x74; x65; x73; x74; x2f; x61; x6c; x6c; x68; x65; x78; x2e; x67; x6f; x3a; x61; x6c; x6c; x48; x65; x78],
      [x62; x31; x62; x34; x64; x31; x38; x38; x61; x37; x64; x35; x34; x34; x36; x62; x36; x38; x34; x38; x35; x35; x32; x64; x33; x39; x66; x62; x36; x31; x63; x65; x38; x32; x37; x30; x34; x64; x34; x35; x33; x62; x38; x31; x35; x34; x38; x38; x35; x66; x36; x66; x38; x37; x31; x33; x36; x30; x64; x30; x66; x63; x33; x61]);
   (* goproxytest/proxy.go:<package-level declarations> *) ([x67; x6f; x70; x72; x6f; x78; x79; x74; x65; x73; x74; x2f; x70; x72; x6f; x78; x79; x2e; x67; x6f; x3a; x3c; x70; x61; x63; x6b; x61; x67; x65; x2d; x6c; x65; x76; x65; x6c; x20; x64; x65; x63; x6c; x61; x72; x61; x74; x69; x6f; x6e; x73; x3e],
      [x66; x62; x38; x64; x32; x34; x33; x39; x39; x66; x39; x61; x61; x63; x36; x63; x38; x34; x30; x64; x32; x32; x64; x65; x65; x32; x33; x66; x38; x37; x38; x32; x64; x63; x36; x62; x35; x66; x64; x66; x31; x65; x36; x61; x39; x62; x33; x64; x30; x39; x35; x34; x33; x65; x65; x63; x35; x39; x64; x31; x65; x30; x37; x63]);
   (* goproxytest/proxy.go:NewServer *) ([x67; x6f; x70; x72; x6f; x78; x79; x74; x65; x73; x74; x2f; x70; x72; x6f; x78; x79; x2e; x67; x6f; x3a; x4e; x65; x77; x53; x65; x72; x76; x65; x72],
      [x38; x34; x65; x66; x66; x62; x38; x38; x33; x65; x64; x31; x38; x33; x33; x64; x31; x62; x62; x65; x34; x36; x32; x38; x66; x30; x37; x32; x30; x30; x31; x39; x62; x37; x62; x30; x30; x31; x39; x36; x65; x35; x65; x63; x36; x62; x32; x65; x61; x39; x32; x30; x32; x30; x31; x62; x63; x34; x35; x31; x37; x36; x39; x39]);
   (* goproxytest/proxy.go:NewTestServer *) ([x67; x6f; x70; x72; x6f; x78; x79; x74; x65; x73; x74; x2f; x70; x72; x6f; x78; x79; x2e; x67; x6f; x3a; x4e; x65; x77; x54; x65; x73; x74; x53; x65; x72; x76; x65; x72],
      [x62; x34; x32; x65; x39; x61; x62; x62; x38; x61; x33; x33; x31; x37; x32; x36; x33; x65; x65; x32; x63; x35; x30; x33; x66; x33; x31; x63; x64; x31; x37; x62; x63; x64; x37; x34; x36; x39; x65; x35; x65; x62; x35; x31; x64; x63; x32; x61; x39; x31; x30; x39; x65; x33; x61; x62; x61; x37; x63; x63; x34; x65; x66; x64]);
   (* goproxytest/proxy.go:Server.Close *) ([x67; x6f; x70; x72; x6f; x78; x79; x74; x65; x73; x74; x2f; x70; x72; x6f; x78; x79; x2e; x67; x6f; x3a; x53; x65; x72; x76; x65; x72; x2e; x43; x6c; x6f; x73; x65],
      [x65; x65; x33; x35; x39; x30; x36; x65; x31; x36; x36; x36; x62; x32; x30; x63; x61; x63; x30; x36; x30; x66; x66; x65; x61; x65; x38; x33; x37; x66; x32; x35; x63; x36; x39; x63; x37; x39; x32; x62; x33; x38; x31; x36; x35; x35; x38; x64; x33; x30; x37; x35; x32; x63; x34; x62; x33; x62; x32; x63; x62; x65; x34; x37]);
   (* goproxytest/proxy.go:Server.findHash *) ([x67; x6f; x70; x72; x6f; x78; x79; x74; x65; x73; x74; x2f; x70; x72; x6f; x78; x79; x2e; x67; x6f; x3a; x53; x65; x72; x76; x65; x72; x2e; x66; x69; x6e; x64; x48; x61; x73; x68],
      [x33; x61; x36; x33; x65; x30; x33; x64; x39; x35; x38; x61; x33; x35; x65; x34; x37; x39; x31; x35; x62; x66; x61; x32; x61; x32; x37; x34; x62; x34; x62; x37; x64; x35; x36; x37; x33; x34; x39; x30; x34; x33; x64; x37; x32; x61; x37; x30; x37; x36; x65; x34; x30; x34; x30; x33; x61; x39; x38; x35; x65; x30; x65; x38]);
   (* goproxytest/proxy.go:Server.handler *) ([x67; x6f; x70; x72; x6f; x78; x79; x74; x65; x73; x74; x2f; x70; x72; x6f; x78; x79; x2e; x67; x6f; x3a; x53; x65; x72; x76; x65; x72; x2e; x68; x61; x6e; x64; x6c; x65; x72],
      [x65; x62; x62; x31; x31; x62; x63; x33; x30; x36; x64; x63; x33; x37; x32; x63; x33; x30; x34; x61; x37; x31; x64; x63; x36; x37; x39; x34; x37; x34; x32; x33; x66; x66; x66; x63; x30; x65; x39; x30; x34; x37; x64; x39; x62; x61; x36; x33; x61; x34; x32; x62; x64; x32; x31; x62; x33; x64; x38; x34; x36; x31; x33; x37]);
   (* goproxytest/proxy.go:Server.readArchive *) ([x67; x6f; x70; x72; x6f; x78; x79; x74; x65; x73; x74; x2f; x70; x72; x6f; x78; x79; x2e; x67; x6f; x3a; x53; x65; x72; x76; x65; x72; x2e; x72; x65; x61; x64; x41; x72; x63; x68; x69; x76; x65],
      [x37; x39; x64; x32; x31; x62; x34; x61; x39; x38; x65; x31; x38; x34; x66; x38; x30; x32; x33; x65; x63; x39; x33; x31; x63; x35; x61; x39; x63; x33; x37; x39; x65; x62; x31; x39; x65; x63; x66; x63; x32; x61; x63; x35; x31; x63; x36; x32; x39; x30; x34; x63; x31; x36; x37; x63; x36; x38; x65; x61; x39; x62; x32; x62]);
   (* goproxytest/proxy.go:Server.readModList *) ([x67; x6f; x70; x72; x6f; x78; x79; x74; x65; x73; x74; x2f; x70; x72; x6f; x78; x79; x2e; x67; x6f; x3a; x53; x65; x72; x76; x65; x72; x2e; x72; x65; x61; x64; x4d; x6f; x64; x4c; x69; x73; x74],
      [x62; x62; x31; x33; x35; x33; x66; x36; x66; x32; x64; x63; x63; x36; x65; x36; x66; x36; x38; x33; x61; x65; x33; x37; x61; x31; x62; x33; x61; x37; x36; x37; x31; x61; x37; x62; x38; x33; x31; x62; x38; x30; x38; x36; x64; x34; x32; x64; x32; x61; x65; x61; x62; x61; x64; x32; x64; x64; x36; x30; x64; x36; x36; x37]);
   (* goproxytest/proxy.go:newServer *) ([x67; x6f; x70; x72; x6f; x78; x79; x74; x65; x73; x74; x2f; x70; x72; x6f; x78; x79; x2e; x67; x6f; x3a; x6e; x65; x77; x53; x65; x72; x76; x65; x72],
      [x63; x33; x38; x30; x32; x36; x38; x34; x39; x31; x36; x64; x30; x62; x34; x63; x32; x61; x30; x62; x31; x64; x62; x34; x31; x37; x31; x61; x33; x30; x35; x31; x63; x38; x37; x33; x63; x30; x34; x31; x36; x35; x34; x65; x62; x66; x32; x62; x61; x30; x38; x37; x32; x34; x64; x33; x30; x30; x39; x63; x37; x62; x64; x36]);
   (* goproxytest/pseudo.go:<package-level declarations> *) ([x67; x6f; x70; x72; x6f; x78; x79; x74; x65; x73; x74; x2f; x70; x73; x65; x75; x64; x6f; x2e; x67; x6f; x3a; x3c; x70; x61; x63; x6b; x61; x67; x65; x2d; x6c; x65; x76; x65; x6c; x20; x64; x65; x63; x6c; x61; x72; x61; x74; x69; x6f; x6e; x73; x3e],
      [x37; x65; x33; x62; x61; x37; x64; x33; x65; x37; x65; x38; x35; x62; x63; x63; x33; x37; x66; x38; x66; x37; x37; x31; x66; x64; x37; x66; x62; x31; x36; x30; x32; x33; x39; x66; x63; x37; x32; x30; x65; x33; x62; x35; x36; x30; x36; x66; x64; x31; x37; x61; x35; x64; x32; x30; x66; x62; x38; x61; x65; x36; x37; x36]);
   (* goproxytest/pseudo.go:isPseudoVersion *) ([x67; x6f; x70; x72; x6f; x78; x79; x74; x65; x73; x74; x2f; x70; x73; x65; x75; x64; x6f; x2e; x67; x6f; x3a; x69; x73; x50; x73; x65; x75; x64; x6f; x56; x65; x72; x73; x69; x6f; x6e],
      [x32; x62; x64; x35; x66; x31; x35; x31; x65; x37; x32; x32; x38; x62; x39; x35; x32; x64; x39; x33; x64; x37; x65; x33; x63; x38; x61; x63; x64; x36; x32; x37; x63; x36; x35; x30; x35; x34; x30; x61; x34; x32; x39; x36; x35; x37; x65; x65; x39; x38; x65; x61; x61; x38; x32; x31; x34; x64; x63; x32; x66; x32; x61; x35])].

Lemma shapes_current : shape_table = expected_shape_table.
Proof. reflexivity. Qed.
Print Assumptions shapes_current.

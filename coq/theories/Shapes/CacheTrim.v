(* RECORDED by tools/shapes.py record CacheTrim: the canonical text (shapes/CacheTrim.txt) of every function
   of /repo that the hand-written model of this group mirrors, as SHA-256 digests, at the source
   version the model was written against / last reviewed against.  Gen/ShapeCacheTrim.v is regenerated
   from the checked tree on every run; the lemma below is the obligation that the two agree:
   an edited function re-opens it (tools/shapes.py diff CacheTrim shows the edit). *)
From Coq Require Import List.
From Coq.Strings Require Import Byte.
From GI Require Import Gen.ShapeCacheTrim.
Import ListNotations.

Definition expected_shape_table : list (list byte * list byte) :=
  [(* cache/cache.go:<package-level declarations> *) ([x63; x61; x63; x68; x65; x2f; x63; x61; x63; x68; x65; x2e; x67; x6f; x3a; x3c; x70; x61; x63; x6b; x61; x67; x65; x2d; x6c; x65; x76; x65; x6c; x20; x64; x65; x63; x6c; x61; x72; x61; x74; x69; x6f; x6e; x73; x3e],
      [x64; x66; x61; x30; x62; x32; x37; x38; x32; x37; x61; x66; x38; x61; x65; x66; x36; x31; x33; x65; x36; x37; x30; x38; x37; x37; x34; x63; x34; x61; x39; x66; x32; x65; x39; x36; x32; x39; x39; x39; x61; x30; x39; x30; x30; x64; x35; x30; x30; x34; x37; x66; x62; x65; x34; x34; x66; x38; x30; x39; x33; x32; x37; x34]);
   (* cache/cache.go:Cache.GetBytes *) ([x63; x61; x63; x68; x65; x2f; x63; x61; x63; x68; x65; x2e; x67; x6f; x3a; x43; x61; x63; x68; x65; x2e; x47; x65; x74; x42; x79; x74; x65; x73],
      [x36; x38; x65; x65; x34; x62; x33; x63; x33; x38; x37; x61; x65; x38; x32; x32; x35; x65; x32; x32; x61; x33; x61; x64; x36; x30; x35; x32; x37; x31; x66; x34; x61; x36; x61; x66; x34; x36; x31; x38; x62; x35; x38; x32; x34; x33; x37; x30; x61; x31; x30; x35; x33; x32; x63; x36; x38; x32; x37; x63; x66; x33; x35; x63]);
   (* cache/cache.go:Cache.GetFile *) ([x63; x61; x63; x68; x65; x2f; x63; x61; x63; x68; x65; x2e; x67; x6f; x3a; x43; x61; x63; x68; x65; x2e; x47; x65; x74; x46; x69; x6c; x65],
      [x62; x31; x35; x38; x64; x31; x33; x38; x33; x38; x34; x33; x33; x64; x37; x35; x33; x66; x37; x63; x64; x31; x30; x36; x33; x64; x30; x31; x62; x36; x63; x66; x35; x35; x65; x39; x37; x36; x39; x64; x39; x30; x61; x62; x65; x33; x36; x38; x35; x37; x34; x35; x39; x63; x32; x31; x62; x36; x33; x32; x33; x39; x64; x38]);
   (* cache/cache.go:Cache.OutputFile *) ([x63; x61; x63; x68; x65; x2f; x63; x61; x63; x68; x65; x2e; x67; x6f; x3a; x43; x61; x63; x68; x65; x2e; x4f; x75; x74; x70; x75; x74; x46; x69; x6c; x65],
      [x38; x37; x33; x39; x34; x36; x37; x34; x33; x36; x62; x37; x36; x37; x30; x30; x62; x39; x37; x66; x66; x62; x33; x61; x36; x30; x38; x62; x31; x32; x63; x66; x36; x31; x31; x66; x64; x35; x66; x62; x37; x38; x37; x33; x61; x65; x35; x38; x65; x36; x33; x66; x33; x34; x64; x64; x39; x34; x36; x38; x64; x61; x34; x65]);
   (* cache/cache.go:Cache.Trim *) ([x63; x61; x63; x68; x65; x2f; x63; x61; x63; x68; x65; x2e; x67; x6f; x3a; x43; x61; x63; x68; x65; x2e; x54; x72; x69; x6d],
      [x30; x66; x62; x39; x32; x63; x65; x36; x37; x33; x66; x38; x38; x37; x31; x37; x35; x63; x39; x31; x34; x65; x66; x62; x35; x34; x36; x35; x35; x62; x64; x65; x36; x65; x33; x30; x66; x33; x63; x33; x32; x35; x32; x61; x32; x33; x36; x36; x37; x31; x32; x32; x32; x66; x66; x63; x39; x38; x32; x31; x30; x35; x61; x33]);
   (* cache/cache.go:Cache.copyFile *) ([x63; x61; x63; x68; x65; x2f; x63; x61; x63; x68; x65; x2e; x67; x6f; x3a; x43; x61; x63; x68; x65; x2e; x63; x6f; x70; x79; x46; x69; x6c; x65],
      [x38; x31; x33; x65; x33; x63; x30; x31; x31; x30; x31; x36; x34; x62; x32; x61; x61; x37; x31; x31; x61; x38; x61; x65; x30; x61; x34; x63; x64; x63; x61; x62; x37; x64; x37; x66; x32; x64; x39; x37; x31; x63; x66; x38; x33; x66; x62; x32; x39; x65; x31; x39; x66; x32; x36; x34; x61; x65; x61; x35; x36; x35; x66; x39]);
   (* cache/cache.go:Cache.fileName *) ([x63; x61; x63; x68; x65; x2f; x63; x61; x63; x68; x65; x2e; x67; x6f; x3a; x43; x61; x63; x68; x65; x2e; x66; x69; x6c; x65; x4e; x61; x6d; x65],
      [x35; x34; x34; x64; x32; x66; x36; x34; x66; x35; x31; x39; x32; x33; x39; x32; x65; x30; x36; x66; x32; x62; x66; x38; x62; x31; x62; x34; x31; x32; x32; x33; x63; x62; x63; x32; x38; x66; x34; x38; x36; x64; x34; x35; x63; x65; x34; x62; x34; x62; x38; x38; x36; x66; x35; x32; x64; x66; x38; x61; x33; x64; x31; x37]);
   (* cache/cache.go:Cache.get *) ([x63; x61; x63; x68; x65; x2f; x63; x61; x63; x68; x65; x2e; x67; x6f; x3a; x43; x61; x63; x68; x65; x2e; x67; x65; x74],
      [x38; x37; x64; x30; x32; x39; x34; x34; x62; x63; x66; x64; x36; x64; x63; x64; x31; x37; x30; x66; x62; x64; x38; x64; x30; x38; x34; x65; x37; x62; x65; x66; x33; x31; x63; x65; x32; x36; x66; x37; x61; x62; x32; x33; x36; x32; x38; x39; x37; x33; x36; x65; x31; x65; x39; x39; x35; x33; x34; x64; x30; x34; x64; x64]);
   (* cache/cache.go:Cache.put *) ([x63; x61; x63; x68; x65; x2f; x63; x61; x63; x68; x65; x2e; x67; x6f; x3a; x43; x61; x63; x68; x65; x2e; x70; x75; x74],
      [x64; x32; x37; x63; x35; x39; x61; x35; x30; x66; x66; x66; x37; x30; x39; x39; x64; x63; x32; x64; x65; x36; x33; x31; x63; x32; x61; x32; x64; x33; x34; x62; x36; x35; x35; x36; x38; x34; x30; x36; x34; x31; x64; x39; x38; x30; x35; x37; x34; x33; x34; x64; x32; x33; x38; x64; x62; x37; x39; x61; x30; x61; x63; x34]);
   (* cache/cache.go:Cache.putIndexEntry *) ([x63; x61; x63; x68; x65; x2f; x63; x61; x63; x68; x65; x2e; x67; x6f; x3a; x43; x61; x63; x68; x65; x2e; x70; x75; x74; x49; x6e; x64; x65; x78; x45; x6e; x74; x72; x79],
      [x61; x33; x33; x36; x39; x34; x32; x35; x36; x66; x33; x39; x30; x33; x35; x32; x63; x65; x30; x37; x37; x66; x34; x31; x65; x65; x32; x36; x31; x65; x36; x65; x33; x31; x30; x62; x37; x31; x65; x30; x31; x65; x33; x37; x37; x62; x65; x31; x30; x62; x61; x64; x31; x62; x62; x61; x32; x33; x36; x62; x61; x36; x66; x30]);
   (* cache/cache.go:Cache.trimSubdir *) ([x63; x61; x63; x68; x65; x2f; x63; x61; x63; x68; x65; x2e; x67; x6f; x3a; x43; x61; x63; x68; x65; x2e; x74; x72; x69; x6d; x53; x75; x62; x64; x69; x72],
      [x36; x34; x66; x64; x32; x39; x34; x62; x65; x39; x63; x38; x64; x62; x66; x37; x34; x32; x36; x63; x64; x32; x65; x31; x38; x33; x36; x61; x35; x62; x62; x61; x39; x65; x61; x37; x33; x38; x62; x66; x30; x39; x32; x39; x30; x38; x62; x35; x65; x64; x62; x35; x32; x61; x61; x38; x33; x38; x63; x34; x30; x33; x63; x62]);
   (* cache/cache.go:Cache.used *) ([x63; x61; x63; x68; x65; x2f; x63; x61; x63; x68; x65; x2e; x67; x6f; x3a; x43; x61; x63; x68; x65; x2e; x75; x73; x65; x64],
      [x33; x32; x32; x30; x30; x34; x37; x36; x37; x63; x63; x33; x31; x61; x65; x35; x30; x39; x38; x39; x61; x33; x61; x61; x62; x35; x34; x36; x38; x30; x31; x38; x62; x35; x39; x64; x64; x66; x32; x36; x34; x64; x37; x33; x63; x35; x66; x33; x63; x32; x61; x31; x33; x36; x34; x66; x36; x64; x30; x38; x65; x33; x35; x31])].

Lemma shapes_current : shape_table = expected_shape_table.
Proof. reflexivity. Qed.
Print Assumptions shapes_current.

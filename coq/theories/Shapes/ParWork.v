(* RECORDED by tools/shapes.py record ParWork: the canonical text (shapes/ParWork.txt) of every function
   of /repo that the hand-written model of this group mirrors, as SHA-256 digests, at the source
   version the model was written against / last reviewed against.  Gen/ShapeParWork.v is regenerated
   from the checked tree on every run; the lemma below is the obligation that the two agree:
   an edited function re-opens it (tools/shapes.py diff ParWork shows the edit). *)
From Coq Require Import List.
From Coq.Strings Require Import Byte.
From GI Require Import Gen.ShapeParWork.
Import ListNotations.

Definition expected_shape_table : list (list byte * list byte) :=
  [(* par/work.go:<package-level declarations> *) ([x70; x61; x72; x2f; x77; x6f; x72; x6b; x2e; x67; x6f; x3a; x3c; x70; x61; x63; x6b; x61; x67; x65; x2d; x6c; x65; x76; x65; x6c; x20; x64; x65; x63; x6c; x61; x72; x61; x74; x69; x6f; x6e; x73; x3e],
      [x39; x31; x39; x61; x37; x66; x36; x37; x63; x38; x34; x31; x34; x35; x39; x63; x62; x39; x35; x39; x31; x62; x32; x65; x37; x62; x31; x32; x62; x35; x35; x66; x65; x35; x66; x63; x64; x65; x64; x37; x37; x31; x30; x66; x62; x30; x32; x61; x39; x65; x34; x66; x33; x62; x34; x35; x61; x31; x62; x65; x33; x66; x64; x32]);
   (* par/work.go:Work.Add *) ([x70; x61; x72; x2f; x77; x6f; x72; x6b; x2e; x67; x6f; x3a; x57; x6f; x72; x6b; x2e; x41; x64; x64],
      [x61; x34; x39; x62; x65; x64; x38; x30; x33; x36; x62; x30; x64; x36; x66; x30; x30; x31; x38; x35; x38; x30; x62; x35; x63; x32; x30; x34; x32; x64; x37; x61; x62; x64; x61; x61; x38; x33; x39; x64; x63; x36; x65; x35; x35; x33; x62; x37; x33; x37; x61; x35; x38; x65; x37; x31; x63; x64; x31; x65; x34; x62; x64; x65]);
   (* par/work.go:Work.Do *) ([x70; x61; x72; x2f; x77; x6f; x72; x6b; x2e; x67; x6f; x3a; x57; x6f; x72; x6b; x2e; x44; x6f],
      [x34; x34; x66; x33; x33; x63; x35; x64; x65; x65; x31; x33; x63; x62; x61; x39; x35; x32; x61; x31; x30; x36; x38; x38; x62; x33; x39; x65; x31; x35; x62; x35; x66; x33; x61; x34; x66; x35; x36; x61; x30; x39; x30; x31; x32; x61; x61; x39; x34; x34; x36; x36; x64; x35; x38; x62; x63; x30; x65; x34; x32; x34; x35; x30]);
   (* par/work.go:Work.init *) ([x70; x61; x72; x2f; x77; x6f; x72; x6b; x2e; x67; x6f; x3a; x57; x6f; x72; x6b; x2e; x69; x6e; x69; x74],
      [x62; x64; x33; x62; x66; x66; x32; x64; x63; x30; x35; x31; x66; x35; x36; x63; x30; x30; x38; x65; x34; x38; x65; x38; x61; x66; x39; x30; x62; x33; x62; x33; x64; x39; x30; x30; x36; x30; x66; x30; x35; x65; x37; x64; x35; x65; x61; x38; x33; x31; x32; x34; x66; x65; x38; x66; x62; x33; x62; x63; x65; x32; x37; x61]);
   (* par/work.go:Work.runner *) ([x70; x61; x72; x2f; x77; x6f; x72; x6b; x2e; x67; x6f; x3a; x57; x6f; x72; x6b; x2e; x72; x75; x6e; x6e; x65; x72],
      [x33; x34; x35; x33; x64; x35; x37; x38; x32; x36; x33; x61; x31; x64; x63; x65; x63; x64; x64; x36; x37; x62; x38; x35; x64; x37; x30; x65; x36; x30; x66; x37; x39; x62; x38; x66; x35; x61; x63; x32; x33; x32; x63; x31; x39; x34; x66; x34; x61; x62; x35; x34; x66; x33; x62; x62; x31; x38; x65; x64; x34; x36; x32; x37])].

Lemma shapes_current : shape_table = expected_shape_table.
Proof. reflexivity. Qed.
Print Assumptions shapes_current.

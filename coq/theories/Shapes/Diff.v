(* RECORDED by tools/shapes.py record Diff: the canonical text (shapes/Diff.txt) of every function
   of /repo that the hand-written model of this group mirrors, as SHA-256 digests, at the source
   version the model was written against / last reviewed against.  Gen/ShapeDiff.v is regenerated
   from the checked tree on every run; the lemma below is the obligation that the two agree:
   an edited function re-opens it (tools/shapes.py diff Diff shows the edit). *)
From Coq Require Import List.
From Coq.Strings Require Import Byte.
From GI Require Import Gen.ShapeDiff.
Import ListNotations.

Definition expected_shape_table : list (list byte * list byte) :=
  [(* diff/diff.go:<package-level declarations> *) ([x64; x69; x66; x66; x2f; x64; x69; x66; x66; x2e; x67; x6f; x3a; x3c; x70; x61; x63; x6b; x61; x67; x65; x2d; x6c; x65; x76; x65; x6c; x20; x64; x65; x63; x6c; x61; x72; x61; x74; x69; x6f; x6e; x73; x3e],
      [x64; x31; x33; x64; x34; x30; x32; x35; x36; x64; x61; x38; x39; x30; x32; x31; x32; x32; x63; x38; x65; x33; x64; x30; x36; x66; x32; x38; x65; x33; x37; x62; x32; x30; x38; x30; x34; x31; x61; x61; x61; x30; x36; x31; x36; x63; x36; x32; x38; x37; x66; x34; x63; x30; x32; x66; x32; x62; x34; x62; x35; x61; x61; x39]);
   (* diff/diff.go:Diff *) ([x64; x69; x66; x66; x2f; x64; x69; x66; x66; x2e; x67; x6f; x3a; x44; x69; x66; x66],
      [x32; x35; x39; x65; x64; x39; x34; x37; x64; x39; x39; x38; x62; x36; x34; x30; x34; x66; x39; x31; x65; x38; x31; x61; x34; x65; x39; x34; x65; x62; x36; x38; x63; x64; x62; x30; x33; x31; x61; x38; x32; x34; x35; x66; x64; x31; x64; x30; x62; x33; x66; x32; x63; x65; x35; x37; x61; x38; x37; x38; x32; x62; x61; x30]);
   (* diff/diff.go:lines *) ([x64; x69; x66; x66; x2f; x64; x69; x66; x66; x2e; x67; x6f; x3a; x6c; x69; x6e; x65; x73],
      [x39; x35; x34; x33; x36; x38; x33; x62; x35; x36; x62; x39; x36; x32; x62; x66; x36; x65; x37; x36; x64; x64; x39; x33; x35; x66; x34; x35; x36; x31; x34; x34; x64; x62; x33; x37; x38; x32; x37; x63; x33; x61; x61; x37; x33; x37; x34; x38; x62; x33; x33; x32; x38; x66; x33; x61; x34; x61; x64; x38; x34; x63; x61; x63]);
   (* diff/diff.go:tgs *) ([x64; x69; x66; x66; x2f; x64; x69; x66; x66; x2e; x67; x6f; x3a; x74; x67; x73],
      [x37; x32; x38; x62; x63; x66; x66; x35; x33; x63; x32; x33; x36; x39; x38; x65; x35; x36; x37; x33; x37; x37; x63; x38; x63; x62; x37; x33; x31; x62; x64; x61; x36; x36; x66; x32; x66; x34; x61; x38; x38; x66; x64; x34; x38; x32; x33; x62; x33; x35; x65; x38; x30; x64; x38; x63; x37; x30; x66; x31; x38; x39; x30; x32])].

Lemma shapes_current : shape_table = expected_shape_table.
Proof. reflexivity. Qed.
Print Assumptions shapes_current.

(* RECORDED by tools/shapes.py record TsUpdate: the canonical text (shapes/TsUpdate.txt) of every function
   of /repo that the hand-written model of this group mirrors, as SHA-256 digests, at the source
   version the model was written against / last reviewed against.  Gen/ShapeTsUpdate.v is regenerated
   from the checked tree on every run; the lemma below is the obligation that the two agree:
   an edited function re-opens it (tools/shapes.py diff TsUpdate shows the edit). *)
From Coq Require Import List.
From Coq.Strings Require Import Byte.
From GI Require Import Gen.ShapeTsUpdate.
Import ListNotations.

Definition expected_shape_table : list (list byte * list byte) :=
  [(* testscript/cmd.go:TestScript.cmdCmp *) ([x74; x65; x73; x74; x73; x63; x72; x69; x70; x74; x2f; x63; x6d; x64; x2e; x67; x6f; x3a; x54; x65; x73; x74; x53; x63; x72; x69; x70; x74; x2e; x63; x6d; x64; x43; x6d; x70],
      [x38; x33; x36; x31; x61; x64; x34; x37; x35; x36; x31; x33; x38; x63; x39; x32; x30; x64; x66; x35; x31; x38; x62; x61; x31; x64; x64; x35; x32; x63; x64; x38; x39; x34; x39; x64; x32; x32; x35; x31; x30; x34; x34; x33; x37; x31; x32; x61; x65; x33; x62; x32; x30; x39; x31; x66; x39; x66; x32; x63; x61; x31; x31; x38]);
   (* testscript/cmd.go:TestScript.cmdCmpenv *) ([x74; x65; x73; x74; x73; x63; x72; x69; x70; x74; x2f; x63; x6d; x64; x2e; x67; x6f; x3a; x54; x65; x73; x74; x53; x63; x72; x69; x70; x74; x2e; x63; x6d; x64; x43; x6d; x70; x65; x6e; x76],
      [x39; x36; x30; x62; x63; x33; x35; x31; x37; x64; x37; x65; x61; x30; x37; x34; x33; x37; x63; x30; x65; x66; x34; x32; x37; x66; x64; x32; x64; x63; x38; x36; x66; x62; x66; x37; x33; x62; x62; x33; x36; x62; x36; x62; x30; x65; x32; x35; x63; x37; x63; x38; x31; x30; x65; x36; x31; x61; x37; x65; x65; x38; x30; x39]);
   (* testscript/cmd.go:TestScript.doCmdCmp *) ([x74; x65; x73; x74; x73; x63; x72; x69; x70; x74; x2f; x63; x6d; x64; x2e; x67; x6f; x3a; x54; x65; x73; x74; x53; x63; x72; x69; x70; x74; x2e; x64; x6f; x43; x6d; x64; x43; x6d; x70],
      [x33; x30; x65; x38; x63; x34; x30; x61; x65; x64; x63; x36; x66; x32; x36; x34; x36; x66; x62; x63; x36; x63; x39; x35; x39; x65; x36; x64; x64; x32; x37; x36; x31; x61; x62; x66; x36; x64; x36; x66; x34; x62; x38; x32; x65; x66; x30; x38; x39; x63; x38; x65; x32; x32; x64; x61; x62; x62; x33; x63; x39; x38; x65; x37]);
   (* testscript/testscript.go:TestScript.applyScriptUpdates *) ([x74; x65; x73; x74; x73; x63; x72; x69; x70; x74; x2f; x74; x65; x73; x74; x73; x63; x72; x69; x70; x74; x2e; x67; x6f; x3a; x54; x65; x73; x74; x53; x63; x72; x69; x70; x74; x2e; x61; x70; x70; x6c; x79; x53; x63; x72; x69; x70; x74; x55; x70; x64; x61; x74; x65; x73],
      [x39; x34; x30; x65; x32; x65; x66; x33; x36; x37; x30; x39; x39; x35; x32; x61; x39; x63; x64; x31; x34; x61; x37; x61; x62; x34; x31; x30; x61; x65; x66; x38; x38; x37; x33; x66; x31; x30; x36; x66; x66; x61; x61; x63; x32; x39; x38; x63; x63; x34; x62; x65; x36; x62; x62; x37; x31; x64; x38; x33; x66; x31; x64; x33]);
   (* testscript/testscript.go:TestScript.run *) ([x74; x65; x73; x74; x73; x63; x72; x69; x70; x74; x2f; x74; x65; x73; x74; x73; x63; x72; x69; x70; x74; x2e; x67; x6f; x3a; x54; x65; x73; x74; x53; x63; x72; x69; x70; x74; x2e; x72; x75; x6e],
      [x63; x64; x66; x65; x31; x37; x65; x62; x31; x65; x30; x36; x33; x31; x32; x62; x65; x61; x62; x64; x38; x34; x63; x36; x36; x34; x66; x64; x37; x30; x62; x30; x32; x33; x64; x61; x36; x62; x36; x63; x30; x34; x31; x39; x35; x31; x31; x32; x62; x65; x32; x65; x61; x38; x35; x36; x65; x31; x31; x33; x65; x39; x66; x63])].

Lemma shapes_current : shape_table = expected_shape_table.
Proof. reflexivity. Qed.
Print Assumptions shapes_current.

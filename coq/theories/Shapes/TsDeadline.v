(* RECORDED by tools/shapes.py record TsDeadline: the canonical text (shapes/TsDeadline.txt) of every function
   of /repo that the hand-written model of this group mirrors, as SHA-256 digests, at the source
   version the model was written against / last reviewed against.  Gen/ShapeTsDeadline.v is regenerated
   from the checked tree on every run; the lemma below is the obligation that the two agree:
   an edited function re-opens it (tools/shapes.py diff TsDeadline shows the edit). *)
From Coq Require Import List.
From Coq.Strings Require Import Byte.
From GI Require Import Gen.ShapeTsDeadline.
Import ListNotations.

Definition expected_shape_table : list (list byte * list byte) :=
  [(* testscript/cmd.go:TestScript.cmdExec *) ([x74; x65; x73; x74; x73; x63; x72; x69; x70; x74; x2f; x63; x6d; x64; x2e; x67; x6f; x3a; x54; x65; x73; x74; x53; x63; x72; x69; x70; x74; x2e; x63; x6d; x64; x45; x78; x65; x63],
      [x38; x64; x38; x32; x34; x36; x33; x31; x62; x64; x34; x37; x33; x63; x35; x30; x37; x62; x64; x66; x36; x65; x63; x37; x39; x31; x37; x38; x37; x65; x37; x30; x30; x34; x65; x30; x31; x61; x64; x31; x30; x63; x63; x34; x66; x63; x36; x39; x33; x63; x30; x32; x32; x31; x30; x32; x36; x66; x61; x37; x36; x34; x65; x37]);
   (* testscript/cmd.go:TestScript.cmdKill *) ([x74; x65; x73; x74; x73; x63; x72; x69; x70; x74; x2f; x63; x6d; x64; x2e; x67; x6f; x3a; x54; x65; x73; x74; x53; x63; x72; x69; x70; x74; x2e; x63; x6d; x64; x4b; x69; x6c; x6c],
      [x66; x63; x39; x65; x66; x30; x32; x65; x30; x61; x30; x35; x33; x62; x31; x32; x32; x66; x63; x66; x39; x36; x61; x35; x33; x35; x61; x34; x36; x62; x66; x63; x30; x39; x61; x31; x61; x38; x30; x61; x62; x37; x66; x34; x35; x63; x64; x65; x66; x35; x33; x30; x62; x66; x31; x35; x65; x62; x66; x30; x30; x32; x65; x31]);
   (* testscript/cmd.go:TestScript.cmdWait *) ([x74; x65; x73; x74; x73; x63; x72; x69; x70; x74; x2f; x63; x6d; x64; x2e; x67; x6f; x3a; x54; x65; x73; x74; x53; x63; x72; x69; x70; x74; x2e; x63; x6d; x64; x57; x61; x69; x74],
      [x61; x33; x65; x66; x34; x64; x66; x63; x33; x32; x30; x33; x65; x66; x63; x65; x66; x37; x63; x63; x39; x31; x62; x66; x37; x36; x61; x37; x36; x62; x34; x33; x62; x66; x30; x65; x39; x32; x39; x36; x62; x31; x66; x36; x63; x66; x65; x63; x36; x31; x38; x62; x31; x37; x38; x65; x33; x63; x31; x33; x38; x62; x33; x32]);
   (* testscript/cmd.go:TestScript.waitBackground *) ([x74; x65; x73; x74; x73; x63; x72; x69; x70; x74; x2f; x63; x6d; x64; x2e; x67; x6f; x3a; x54; x65; x73; x74; x53; x63; x72; x69; x70; x74; x2e; x77; x61; x69; x74; x42; x61; x63; x6b; x67; x72; x6f; x75; x6e; x64],
      [x37; x66; x61; x39; x37; x30; x31; x39; x32; x61; x31; x62; x39; x39; x61; x33; x61; x30; x61; x64; x36; x31; x36; x34; x62; x63; x61; x37; x36; x32; x38; x35; x62; x63; x33; x37; x38; x32; x37; x66; x37; x35; x38; x39; x34; x61; x32; x66; x66; x66; x34; x62; x64; x36; x31; x35; x64; x33; x32; x63; x64; x39; x34; x65]);
   (* testscript/cmd.go:TestScript.waitBackgroundOne *) ([x74; x65; x73; x74; x73; x63; x72; x69; x70; x74; x2f; x63; x6d; x64; x2e; x67; x6f; x3a; x54; x65; x73; x74; x53; x63; x72; x69; x70; x74; x2e; x77; x61; x69; x74; x42; x61; x63; x6b; x67; x72; x6f; x75; x6e; x64; x4f; x6e; x65],
      [x37; x37; x35; x64; x30; x35; x65; x66; x66; x38; x31; x35; x64; x39; x30; x33; x33; x39; x64; x30; x38; x30; x39; x36; x66; x63; x34; x63; x35; x37; x37; x32; x66; x64; x30; x64; x36; x63; x65; x35; x66; x33; x30; x34; x37; x33; x39; x38; x64; x65; x34; x33; x66; x31; x63; x66; x33; x31; x36; x34; x38; x34; x37; x31]);
   (* testscript/testscript.go:Run *) ([x74; x65; x73; x74; x73; x63; x72; x69; x70; x74; x2f; x74; x65; x73; x74; x73; x63; x72; x69; x70; x74; x2e; x67; x6f; x3a; x52; x75; x6e],
      [x62; x62; x64; x65; x32; x64; x61; x37; x65; x62; x64; x66; x38; x66; x62; x32; x36; x34; x35; x38; x35; x35; x63; x63; x36; x64; x31; x32; x36; x33; x36; x33; x63; x39; x38; x66; x62; x66; x64; x32; x39; x31; x37; x37; x30; x61; x63; x36; x33; x63; x37; x39; x65; x38; x35; x63; x30; x64; x61; x35; x63; x34; x31; x32]);
   (* testscript/testscript.go:RunT *) ([x74; x65; x73; x74; x73; x63; x72; x69; x70; x74; x2f; x74; x65; x73; x74; x73; x63; x72; x69; x70; x74; x2e; x67; x6f; x3a; x52; x75; x6e; x54],
      [x33; x65; x34; x63; x31; x63; x35; x62; x36; x63; x33; x66; x66; x65; x64; x63; x62; x66; x65; x35; x66; x31; x64; x39; x35; x32; x34; x33; x61; x35; x33; x35; x33; x65; x63; x65; x37; x36; x33; x33; x37; x65; x62; x62; x64; x66; x35; x38; x62; x34; x37; x38; x31; x64; x38; x64; x65; x33; x64; x36; x38; x35; x61; x30]);
   (* testscript/testscript.go:TestScript.exec *) ([x74; x65; x73; x74; x73; x63; x72; x69; x70; x74; x2f; x74; x65; x73; x74; x73; x63; x72; x69; x70; x74; x2e; x67; x6f; x3a; x54; x65; x73; x74; x53; x63; x72; x69; x70; x74; x2e; x65; x78; x65; x63],
      [x32; x63; x66; x32; x66; x66; x33; x38; x37; x33; x37; x30; x36; x34; x32; x65; x34; x37; x35; x64; x36; x33; x61; x30; x65; x63; x61; x33; x33; x65; x32; x34; x37; x36; x63; x62; x35; x37; x37; x65; x34; x38; x65; x35; x65; x33; x39; x35; x33; x33; x35; x30; x35; x37; x65; x38; x38; x61; x39; x63; x39; x63; x35; x31]);
   (* testscript/testscript.go:TestScript.execBackground *) ([x74; x65; x73; x74; x73; x63; x72; x69; x70; x74; x2f; x74; x65; x73; x74; x73; x63; x72; x69; x70; x74; x2e; x67; x6f; x3a; x54; x65; x73; x74; x53; x63; x72; x69; x70; x74; x2e; x65; x78; x65; x63; x42; x61; x63; x6b; x67; x72; x6f; x75; x6e; x64],
      [x35; x61; x31; x32; x39; x64; x61; x66; x66; x62; x64; x38; x39; x66; x33; x31; x33; x33; x62; x32; x34; x38; x37; x36; x31; x32; x38; x38; x33; x35; x66; x64; x36; x62; x36; x39; x63; x37; x31; x63; x39; x62; x65; x32; x65; x66; x39; x64; x66; x64; x31; x35; x31; x30; x36; x30; x37; x30; x30; x65; x32; x61; x38; x33]);
   (* testscript/testscript.go:TestScript.run *) ([x74; x65; x73; x74; x73; x63; x72; x69; x70; x74; x2f; x74; x65; x73; x74; x73; x63; x72; x69; x70; x74; x2e; x67; x6f; x3a; x54; x65; x73; x74; x53; x63; x72; x69; x70; x74; x2e; x72; x75; x6e],
      [x34; x32; x32; x34; x66; x63; x66; x65; x37; x34; x31; x38; x32; x35; x65; x61; x33; x65; x35; x36; x66; x35; x65; x63; x36; x65; x61; x36; x33; x31; x30; x31; x66; x36; x34; x36; x33; x66; x62; x34; x64; x30; x63; x63; x32; x31; x31; x61; x63; x66; x64; x39; x64; x64; x38; x61; x37; x38; x63; x35; x33; x64; x36; x37]);
   (* testscript/testscript.go:interruptProcess *) ([x74; x65; x73; x74; x73; x63; x72; x69; x70; x74; x2f; x74; x65; x73; x74; x73; x63; x72; x69; x70; x74; x2e; x67; x6f; x3a; x69; x6e; x74; x65; x72; x72; x75; x70; x74; x50; x72; x6f; x63; x65; x73; x73],
      [x63; x31; x66; x64; x39; x36; x66; x65; x35; x63; x62; x65; x63; x35; x32; x33; x36; x63; x64; x37; x63; x66; x61; x37; x63; x64; x63; x38; x66; x34; x32; x35; x61; x39; x34; x35; x63; x33; x35; x30; x36; x35; x38; x38; x35; x39; x61; x36; x61; x63; x38; x38; x38; x63; x64; x63; x31; x37; x61; x30; x31; x33; x32; x33]);
   (* testscript/testscript.go:waitOrStop *) ([x74; x65; x73; x74; x73; x63; x72; x69; x70; x74; x2f; x74; x65; x73; x74; x73; x63; x72; x69; x70; x74; x2e; x67; x6f; x3a; x77; x61; x69; x74; x4f; x72; x53; x74; x6f; x70],
      [x36; x34; x31; x39; x37; x39; x38; x31; x38; x61; x32; x63; x64; x62; x64; x33; x38; x30; x35; x66; x65; x66; x65; x61; x31; x30; x38; x64; x34; x32; x64; x61; x32; x30; x66; x39; x33; x30; x33; x64; x61; x63; x30; x38; x65; x31; x65; x32; x64; x31; x65; x39; x35; x39; x62; x34; x35; x37; x65; x66; x63; x30; x64; x61])].

Lemma shapes_current : shape_table = expected_shape_table.
Proof. reflexivity. Qed.
Print Assumptions shapes_current.

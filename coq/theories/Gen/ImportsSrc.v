(* NOT GENERATED: harness/cmd/genconsts could not translate the current source:
   imports/build.go: imports/build.go:166:17: in MatchFile: not in the supported subset (type checker: undefined: strings.ToLower) *)

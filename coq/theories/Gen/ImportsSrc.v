(* NOT GENERATED: harness/cmd/genconsts could not translate the current source:
   imports/build.go: imports/build.go:63:12: in ShouldBuild: not in the supported subset (type checker: undefined: bytes.Contains) *)

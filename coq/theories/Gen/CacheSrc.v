(* NOT GENERATED: harness/cmd/genconsts could not translate the current source:
   cache/cache.go: cache/cache.go:78:23: field of a value of type *github.com/rogpeppe/go-internal/cache.Cache *)

(* NOT GENERATED: harness/cmd/genconsts could not translate the current source:
   lockedfile: lockedfile/lockedfile.go:139:8: call of github.com/rogpeppe/go-internal/lockedfile.transform, which is not among the translated functions *)

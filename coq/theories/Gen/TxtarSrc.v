(* NOT GENERATED: harness/cmd/genconsts could not translate the current source:
   txtar/archive.go: txtar/archive.go:132:2: the append target is also assigned something that may share its backing array *)

(* NOT GENERATED: harness/cmd/genconsts could not translate the current source:
   testscript/testscript.go: testscript/testscript.go:1230:13: in TestScript_expand: not in the supported subset (type checker: undefined: strings.Contains) *)

(* C02 — envvarname as a parameter: the lookup map is keyed by [fold key] (the identity everywhere
   but on Windows, where it is strings.ToLower), the list keeps the keys as written.
   Definitions only.  The model of TsParse.v is the instance fold = identity (TsFoldFacts.v);
   the Windows instance is not exercised by any runner in this sandbox. *)
From Coq Require Import List Bool Arith NArith.
From Coq.Strings Require Import Byte.
From GI Require Import Lib.Bytes Gen.TsParseConsts TsParse.TsParse.
Import ListNotations.
Local Notation bytes := (list byte) (only parsing).

Section Fold.
  Variable fold : bytes -> bytes.

  (* TestScript.Getenv: ts.envMap[envvarname(key)] *)
  Definition getenv_f (st : ts_env) (k : bytes) : bytes := map_get (env_map st) (fold k).

  (* TestScript.Setenv: the list gets key=value, the map envvarname(key) *)
  Definition setenv_f (k v : bytes) (st : ts_env) : ts_env :=
    {| env_list := env_list st ++ [k ++ ts_env_sep :: v];
       env_map := map_set (fold k) v (env_map st) |}.

  Definition setup_env_f (vars : list bytes) : ts_env :=
    {| env_list := vars;
       env_map := fold_left (fun m kv => match split_kv kv with
                                         | Some (k, v) => map_set (fold k) v m
                                         | None => m
                                         end) vars [] |}.

  Definition cmd_env_arg_f (st : ts_env) (a : bytes) : ts_env :=
    match split_kv a with
    | Some (k, v) => setenv_f k v st
    | None => st
    end.
  Definition cmd_env_f (args : list bytes) (st : ts_env) : ts_env := fold_left cmd_env_arg_f args st.

  (* value of the last entry of the list whose key folds to the same name as k *)
  Fixpoint list_get_f (l : list bytes) (k : bytes) : option bytes :=
    match l with
    | [] => None
    | kv :: r =>
        match list_get_f r k with
        | Some v => Some v
        | None =>
            match split_kv kv with
            | Some (k', v) => if bytes_eqb (fold k') (fold k) then Some v else None
            | None => None
            end
        end
    end.
End Fold.

(* strings.ToLower on ASCII letters (environment names on Windows are compared this way) *)
Definition ascii_lower (b : byte) : byte :=
  if in_range 65 90 b then match Byte.of_N (bN b + 32) with Some c => c | None => b end else b.
Definition lower (k : bytes) : bytes := map ascii_lower k.

(* Gen/TsParseSrc.v is the tokenizer, the expansion and the environment of
   testscript/testscript.go (envvarname and the methods Getenv, Setenv, setEnv, expand, parse of TestScript)
   translated to Gallina by harness/go2coq on every run.  This file proves, for every input
   and every receiver state (and every sufficiently large iteration bound), that each
   generated function returns Ok of exactly what the hand-written model TsParse/TsParse.v
   computes -- never Panic, never OutOfFuel with enough fuel; Failed exactly where the model
   says Fatalf.  Every theorem about getenv / setenv / setup_env / expand / ts_parse thus holds
   of the code as translated, and a change of testscript.go that changes the generated text
   stops these proofs from compiling.

   The proofs do not mention generated hypothesis or bound-variable names: each function is
   unfolded, the primitive operations are case-split in evaluation order, loops go by
   induction on the iteration bound (for) or on the list (range). *)
From Coq Require Import List Bool Arith ZArith NArith Lia ZifyBool.
From Coq.Strings Require Import Byte.
From GI Require Import Lib.Bytes Lib.BytesFacts Lib.GoSem Lib.GoSemExt Lib.GoSemExtFacts Lib.GoSemState
  Gen.TsParseConsts Gen.TsParseSrc TsParse.TsParse TsParse.SrcLib TsParse.SrcLibFacts.
Import ListNotations.
Local Notation bytes := (list byte) (only parsing).

(* ------------------------------------------------------------------ *)
(* the receiver and the model's state                                  *)

(* the *TestScript that holds the model state st (its map made by make) while [line] runs *)
Definition recv_of (line : bytes) (st : ts_env) : ts_recv :=
  {| r_line := line; r_env := env_list st; r_envMap := Some (env_map st) |}.

(* the model state a *TestScript holds (a nil map reads as the empty one) *)
Definition env_of (r : ts_recv) : ts_env :=
  {| env_list := r_env r; env_map := match r_envMap r with Some l => l | None => [] end |}.

Lemma env_of_recv_of line st : env_of (recv_of line st) = st.
Proof. now destruct st. Qed.

Ltac go_red :=
  cbv beta iota zeta;
  cbn [bind bindT bindO bindL negb orb andb fst snd app r_line r_env r_envMap env_list env_map].

(* ------------------------------------------------------------------ *)
(* envvarname, Getenv, Setenv                                          *)

(* on the operating system the check runs on (the stub of runtime.GOOS), envvarname is the
   identity *)
Theorem src_envvarname_eq k : src_envvarname k = Ok k.
Proof. reflexivity. Qed.

Theorem src_Getenv_eq r k : src_TestScript_Getenv r k = Ok (getenv (env_of r) k).
Proof.
  unfold src_TestScript_Getenv. rewrite src_envvarname_eq. go_red.
  unfold getenv, go_mapref_get, env_of. cbn [env_map].
  destruct (r_envMap r); [now rewrite assoc_get_map_get|reflexivity].
Qed.

Theorem src_Setenv_eq line st k v :
  src_TestScript_Setenv (recv_of line st) k v = Ok (recv_of line (setenv k v st)).
Proof.
  unfold src_TestScript_Setenv. rewrite src_envvarname_eq. go_red.
  unfold recv_of, setenv, go_append, map_set. cbn [go_mapref_set bind r_line r_env r_envMap env_list env_map].
  now rewrite <- app_assoc.
Qed.

(* ts.envMap[k] = v on a TestScript whose map was never made: the run-time panic of Go *)
Theorem src_Setenv_nil_map r k v : r_envMap r = None -> src_TestScript_Setenv r k v = Panic.
Proof.
  intros H. unfold src_TestScript_Setenv. rewrite src_envvarname_eq. go_red. now rewrite H.
Qed.

(* ------------------------------------------------------------------ *)
(* setEnv: the range loop, by induction on the list                    *)

Lemma go_index_byte_eq c s : GoSem.index_byte c s = TsParse.index_byte c s.
Proof. induction s as [|b r IH]; [reflexivity|]. cbn. now rewrite IH. Qed.

Lemma src_setEnv_loop_eq (L : Type) : forall (l : list bytes) line (env : list bytes) m,
  @src_TestScript_setEnv_loop1 L l {| r_line := line; r_env := env; r_envMap := Some m |} =
  Ok (Normal {| r_line := line; r_env := env;
                r_envMap := Some (fold_left (fun m kv => match split_kv kv with
                                                         | Some (k, v) => map_set k v m
                                                         | None => m
                                                         end) l m) |}).
Proof.
  induction l as [|kv l IH]; intros line env m; [reflexivity|].
  cbn [src_TestScript_setEnv_loop1 fold_left]. unfold split_kv.
  unfold go_bytes_Index. change [x3d] with [ts_env_sep]. rewrite index_sub_byte, go_index_byte_eq.
  destruct (TsParse.index_byte ts_env_sep kv) as [i|] eqn:E; cbn [opt_pos].
  - assert (Hi : i < length kv).
    { rewrite <- go_index_byte_eq in E. now apply index_byte_Some in E. }
    destruct (Z.of_nat i >=? 0)%Z eqn:Eg; [|lia].
    unfold go_slice. replace (Z.of_nat i + 1)%Z with (Z.of_nat (S i)) by lia.
    rewrite slice_z_from, slice_z_to by lia. go_red. rewrite src_envvarname_eq. go_red.
    cbn [go_mapref_set]. go_red. apply IH.
  - go_red. apply IH.
Qed.

Theorem src_setEnv_eq r vars :
  src_TestScript_setEnv r vars = Ok (recv_of (r_line r) (setup_env vars)).
Proof.
  unfold src_TestScript_setEnv. go_red. unfold go_mapref_make.
  rewrite src_setEnv_loop_eq. reflexivity.
Qed.

(* ------------------------------------------------------------------ *)
(* expand                                                              *)

Theorem src_expand_eq r s : src_TestScript_expand r s = Ok (expand (env_of r) s).
Proof.
  unfold src_TestScript_expand, expand.
  rewrite (go_os_Expand_pure (expand_key (env_of r))); [reflexivity|].
  intros key. go_red. change [x40; x52] with ts_regex_suffix.
  rewrite trim_suffix_test. unfold expand_key, go_strings_TrimSuffix, go_regexp_QuoteMeta.
  destruct (strip_suffix ts_regex_suffix key) as [key1|]; rewrite src_Getenv_eq; reflexivity.
Qed.

(* Facts about the denotations of TsParse/SrcLib.v: the monadic os.Expand is the model's
   os_expand whenever the mapping returns; the association-list map of Lib/GoSemState.v is
   the model's envmap. *)
From Coq Require Import List Bool Arith NArith ZArith Lia.
From Coq.Strings Require Import Byte.
From GI Require Import Lib.Bytes Lib.GoSem Lib.GoSemState Gen.TsParseConsts TsParse.TsParse TsParse.SrcLib.
Import ListNotations.
Local Notation bytes := (list byte) (only parsing).

(* os.Expand with a mapping that always returns *)
Lemma expand_go_m_pure (f : bytes -> bytes) (m : bytes -> res bytes) :
  (forall k, m k = Ok (f k)) ->
  forall s skip, expand_go_m m s skip = Ok (expand_go f s skip).
Proof.
  intros Hm. induction s as [|c r IH]; intros skip; [reflexivity|].
  cbn [expand_go_m expand_go]. destruct skip as [|k]; [|apply IH].
  destruct r as [|c' r']; [reflexivity|].
  destruct (beq c dollar).
  - destruct (get_shell_name c' r') as [name w].
    rewrite (IH w).
    destruct name as [|n0 n1]; [destruct w|]; cbn [bind]; try reflexivity.
    rewrite Hm. reflexivity.
  - rewrite (IH 0). reflexivity.
Qed.

Theorem go_os_Expand_pure (f : bytes -> bytes) (m : bytes -> res bytes) s :
  (forall k, m k = Ok (f k)) -> go_os_Expand s m = Ok (os_expand f s).
Proof. intros Hm. unfold go_os_Expand, os_expand. now apply expand_go_m_pure. Qed.

(* a failing mapping is not hidden: the failure of the first failing call is the result *)
Example go_os_Expand_fails :
  go_os_Expand [x61; x24; x62] (fun _ => Panic) = Panic /\
  go_os_Expand [x61; x24] (fun _ => Panic) = Ok [x61; x24].
Proof. split; reflexivity. Qed.

(* m[k] on the association list is the model's map_get *)
Lemma assoc_get_map_get (l : list (bytes * bytes)) k : assoc_get [] l k = map_get l k.
Proof. induction l as [|[k' v] l IH]; [reflexivity|]. cbn [assoc_get map_get]. now rewrite IH. Qed.

(* strings.TrimSuffix and the test len(key1) != len(key) of expand are the model's strip_suffix *)
Lemma has_suffix_length suf key : has_suffix suf key = true -> length suf <= length key.
Proof.
  unfold has_suffix. rewrite <- (rev_length suf), <- (rev_length key).
  generalize (rev suf) (rev key). intros p. induction p as [|x p IH]; intros d H; cbn [length]; [lia|].
  destruct d as [|y d]; [discriminate|]. cbn [has_prefix] in H.
  apply andb_true_iff in H. destruct H as [_ H]. specialize (IH d H). cbn [length]. lia.
Qed.

Lemma trim_suffix_test suf key :
  negb (Z.eqb (len (go_strings_TrimSuffix key suf)) (len key)) =
  match strip_suffix suf key with Some _ => true | None => false end.
Proof.
  unfold go_strings_TrimSuffix, strip_suffix, len.
  destruct (has_suffix suf key) eqn:E; cbn [andb].
  - destruct suf as [|b suf]; cbn [is_nil negb].
    + now rewrite Z.eqb_refl.
    + apply has_suffix_length in E. cbn [length] in E. rewrite firstn_length.
      destruct (Z.eqb_spec (Z.of_nat (Nat.min (length key - length (b :: suf)) (length key))) (Z.of_nat (length key))) as [H|H];
        [cbn [length] in H; lia|reflexivity].
  - now rewrite Z.eqb_refl.
Qed.

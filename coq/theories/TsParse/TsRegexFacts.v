(* C02 — ${k@R}: QuoteMeta of a valid UTF-8 value is, in the literal fragment of RE2, a
   regular expression that denotes exactly the value. *)
From Coq Require Import List Bool Arith NArith Lia.
From Coq.Strings Require Import Byte.
From GI Require Import Lib.Bytes Gen.TsParseConsts TsParse.TsParse TsParse.TsSpec TsParse.TsParseFacts.
Import ListNotations.
Local Notation bytes := (list byte) (only parsing).

(* every byte QuoteMeta escapes is ASCII punctuation, which RE2 accepts after a backslash *)
Lemma specials_are_punct : forallb esc_punct regexp_special_bytes = true.
Proof. reflexivity. Qed.

Lemma special_punct : forall b, re_special b = true -> esc_punct b = true.
Proof. intros b H. exact (mem_byte_forallb esc_punct regexp_special_bytes b specials_are_punct H). Qed.

Lemma special_ascii : forall b, re_special b = true -> N.ltb (bN b) 128 = true.
Proof.
  intros b H. apply special_punct in H. unfold esc_punct in H.
  apply andb_true_iff in H. tauto.
Qed.

Lemma backslash_special : re_special backslash = true.
Proof. reflexivity. Qed.

Lemma backslash_ascii : N.ltb (bN backslash) 128 = true.
Proof. reflexivity. Qed.

Lemma quote_meta_cons : forall b s,
  quote_meta (b :: s) = (if re_special b then [backslash; b] else [b]) ++ quote_meta s.
Proof. reflexivity. Qed.

Lemma not_ascii_not_special : forall b, N.ltb (bN b) 128 = false -> re_special b = false.
Proof.
  intros b H. destruct (re_special b) eqn:E; [|reflexivity].
  apply special_ascii in E. rewrite E in H. discriminate.
Qed.

Lemma in_range_high : forall lo hi b, (128 <= lo)%N -> in_range lo hi b = true -> N.ltb (bN b) 128 = false.
Proof.
  intros lo hi b Hlo H. unfold in_range in H. apply andb_true_iff in H. destruct H as [H _].
  apply N.leb_le in H. apply N.ltb_ge. lia.
Qed.

Lemma utf8_dfa_cons : forall b r need lo hi,
  utf8_dfa (b :: r) need lo hi =
      match need with
      | O =>
          if N.ltb (bN b) 128 then utf8_dfa r 0 128 191
          else if in_range 194 223 b then utf8_dfa r 1 128 191
          else if N.eqb (bN b) 224 then utf8_dfa r 2 160 191
          else if N.eqb (bN b) 237 then utf8_dfa r 2 128 159
          else if in_range 225 239 b then utf8_dfa r 2 128 191
          else if N.eqb (bN b) 240 then utf8_dfa r 3 144 191
          else if N.eqb (bN b) 244 then utf8_dfa r 3 128 143
          else if in_range 241 243 b then utf8_dfa r 3 128 191
          else false
      | S n => if in_range lo hi b then utf8_dfa r n 128 191 else false
      end.
Proof. reflexivity. Qed.

(* escaping ASCII bytes keeps a string valid UTF-8 *)
Lemma utf8_dfa_quote_meta : forall d need lo hi,
  (need <> 0 -> (128 <= lo)%N) ->
  utf8_dfa d need lo hi = true -> utf8_dfa (quote_meta d) need lo hi = true.
Proof.
  induction d as [|b r IH]; intros need lo hi Hlo H; [exact H|].
  rewrite quote_meta_cons. rewrite utf8_dfa_cons in H.
  destruct need as [|n].
  - destruct (N.ltb (bN b) 128) eqn:Ea.
    + assert (IHr : utf8_dfa (quote_meta r) 0 128 191 = true) by (apply IH; [intros X; contradiction X; reflexivity|exact H]).
      destruct (re_special b).
      * simpl app. rewrite utf8_dfa_cons, backslash_ascii, utf8_dfa_cons, Ea. exact IHr.
      * simpl app. rewrite utf8_dfa_cons, Ea. exact IHr.
    + rewrite (not_ascii_not_special b Ea). simpl app. rewrite utf8_dfa_cons, Ea.
      destruct (in_range 194 223 b); [apply IH; [intros _; lia|exact H]|].
      destruct (N.eqb (bN b) 224); [apply IH; [intros _; lia|exact H]|].
      destruct (N.eqb (bN b) 237); [apply IH; [intros _; lia|exact H]|].
      destruct (in_range 225 239 b); [apply IH; [intros _; lia|exact H]|].
      destruct (N.eqb (bN b) 240); [apply IH; [intros _; lia|exact H]|].
      destruct (N.eqb (bN b) 244); [apply IH; [intros _; lia|exact H]|].
      destruct (in_range 241 243 b); [apply IH; [intros _; lia|exact H]|].
      discriminate.
  - destruct (in_range lo hi b) eqn:Er; [|discriminate].
    assert (Hb : N.ltb (bN b) 128 = false).
    { apply (in_range_high lo hi b); [apply Hlo; discriminate|exact Er]. }
    rewrite (not_ascii_not_special b Hb). simpl app. rewrite utf8_dfa_cons, Er.
    apply IH; [intros _; lia|exact H].
Qed.

Lemma lit_go_esc : forall c r,
  esc_punct c = true -> lit_go (backslash :: c :: r) = option_map (cons c) (lit_go r).
Proof. intros c r H. simpl. rewrite H. reflexivity. Qed.

Lemma lit_go_plain : forall b r,
  beq b backslash = false -> re_special b = false ->
  lit_go (b :: r) = option_map (cons b) (lit_go r).
Proof. intros b r H1 H2. simpl. rewrite H1, H2. reflexivity. Qed.

Lemma lit_go_quote_meta : forall v, lit_go (quote_meta v) = Some v.
Proof.
  induction v as [|b v IH]; [reflexivity|].
  rewrite quote_meta_cons. destruct (re_special b) eqn:E.
  - change ([backslash; b] ++ quote_meta v) with (backslash :: b :: quote_meta v).
    rewrite (lit_go_esc b _ (special_punct b E)), IH. reflexivity.
  - change ([b] ++ quote_meta v) with (b :: quote_meta v).
    assert (Hb : beq b backslash = false).
    { destruct (beq b backslash) eqn:Eb; [|reflexivity].
      apply beq_true in Eb. subst b. rewrite backslash_special in E. discriminate. }
    rewrite (lit_go_plain b _ Hb E), IH. reflexivity.
Qed.

(* QuoteMeta v is a regular expression of the literal fragment, and it denotes exactly v *)
Theorem quote_meta_literal : forall v,
  utf8_ok v = true -> re_literal (quote_meta v) = Some v.
Proof.
  intros v H. unfold re_literal, utf8_ok.
  rewrite (utf8_dfa_quote_meta v 0 128 191); [apply lit_go_quote_meta| |exact H].
  intros X. contradiction X. reflexivity.
Qed.

(* the whole path: what ${k@R} puts on the line is a literal regular expression for the value *)
Theorem expand_regex_denotes : forall st cmd k v,
  plain_word cmd -> brace_word k -> getenv st k = v -> utf8_ok v = true ->
  exists p,
    ts_parse st (cmd ++ SP :: dollar :: lbrace :: (k ++ ts_regex_suffix) ++ [rbrace]) = Some [cmd; p]
    /\ re_literal p = Some v.
Proof.
  intros st cmd k v Hcmd Hk Hv Hu.
  exists (quote_meta v). split; [|apply quote_meta_literal; exact Hu].
  pose proof (parse_expand_regex st cmd [] k [] v Hcmd eq_refl eq_refl Hk Hv) as H.
  simpl app in H. rewrite app_nil_r in H. exact H.
Qed.

(* ------------------------------------------------------------------ examples (non-vacuity) *)

From Coq Require Import String.
Definition bs (s : String.string) : list byte := String.list_byte_of_string s.

Example quote_meta_literal_ex :
  let v := bs "a.b*c (x|y) [z]+ $^ \ é"%string in
  utf8_ok v = true /\ quote_meta v <> v /\ re_literal (quote_meta v) = Some v.
Proof. vm_compute. repeat split; [discriminate]. Qed.

(* outside the hypothesis: an invalid UTF-8 value is not a pattern of the fragment at all *)
Example quote_meta_invalid_ex : re_literal (quote_meta [xff]) = None.
Proof. reflexivity. Qed.

(* the fragment really rejects operators *)
Example re_literal_rejects_ex :
  re_literal (bs "a.b"%string) = None /\ re_literal (bs "a\w"%string) = None /\
  re_literal (bs "a\.b"%string) = Some (bs "a.b"%string).
Proof. vm_compute. repeat split. Qed.

Example expand_regex_ex :
  let st := cmd_env [bs "R=a.b*c"%string] (setup_env []) in
  ts_parse st (bs "grep ${R@R}"%string) = Some [bs "grep"%string; bs "a\.b\*c"%string]
  /\ re_literal (bs "a\.b\*c"%string) = Some (bs "a.b*c"%string).
Proof. vm_compute. split; reflexivity. Qed.

(* Gen/TsParseSrc.v, third part: the env command (the method cmdEnv of TestScript, testscript/cmd.go)
   as translated by harness/go2coq equals the hand-written model: with arguments it is cmd_env
   (every K=V through the translated Setenv, a bare name only displays), without arguments it
   leaves the state alone and panics exactly where the model's env_listing is None (an entry
   of ts.env without "=": kv[:-1]), negated it ends in Fatalf.  What the command prints (Logf)
   is outside the denoted state. *)
From Coq Require Import List Bool Arith ZArith NArith Lia.
From Coq.Strings Require Import Byte.
From GI Require Import Lib.Bytes Lib.BytesFacts Lib.GoSem Lib.GoSemExt Lib.GoSemExtFacts Lib.GoSemState
  Gen.TsParseConsts Gen.TsParseSrc TsParse.TsParse TsParse.TsScript TsParse.SrcLib TsParse.SrcLibFacts TsParse.SrcFacts.
Import ListNotations.
Local Notation bytes := (list byte) (only parsing).

Definition has_kv (kv : bytes) : bool := match split_kv kv with Some _ => true | None => false end.

(* the index search of cmdEnv / setEnv in terms of the model's split_kv *)
Lemma go_index_sep kv :
  go_bytes_Index kv [x3d] = match TsParse.index_byte ts_env_sep kv with Some i => Z.of_nat i | None => (-1)%Z end.
Proof.
  unfold go_bytes_Index. change [x3d] with [ts_env_sep]. rewrite index_sub_byte, go_index_byte_eq.
  now destruct (TsParse.index_byte ts_env_sep kv).
Qed.

Lemma index_sep_lt kv i : TsParse.index_byte ts_env_sep kv = Some i -> i < length kv.
Proof. intros E. rewrite <- go_index_byte_eq in E. now apply index_byte_Some in E. Qed.

(* ------------------------------------------------------------------ env K=V ... *)

Lemma src_cmdEnv_args_loop (L : Type) : forall (l : list bytes) line st,
  @src_TestScript_cmdEnv_loop2 L l (recv_of line st) = Ok (Normal (recv_of line (cmd_env l st))).
Proof.
  induction l as [|a l IH]; intros line st; [reflexivity|].
  cbn [src_TestScript_cmdEnv_loop2 cmd_env fold_left]. fold (cmd_env l (cmd_env_arg st a)).
  unfold cmd_env_arg, split_kv. rewrite go_index_sep.
  destruct (TsParse.index_byte ts_env_sep a) as [i|] eqn:E; go_red.
  - pose proof (index_sep_lt a i E) as Hi.
    destruct (Z.of_nat i <? 0)%Z eqn:El; [apply Z.ltb_lt in El; lia|].
    unfold go_slice. replace (Z.of_nat i + 1)%Z with (Z.of_nat (S i)) by lia.
    rewrite slice_z_from, slice_z_to by lia. go_red. rewrite src_Setenv_eq. go_red. apply IH.
  - cbn [Z.ltb Z.compare]. rewrite src_Getenv_eq. go_red. apply IH.
Qed.

(* ------------------------------------------------------------------ env *)

Lemma src_cmdEnv_list_loop (L : Type) ts : forall (l : list bytes) (p : list (bytes * bool)),
  if forallb has_kv l
  then exists p', @src_TestScript_cmdEnv_loop1 L ts l (Some p) = Ok (Normal (Some p'))
  else @src_TestScript_cmdEnv_loop1 L ts l (Some p) = Panic.
Proof.
  induction l as [|kv l IH]; intros p; [cbn; eauto|].
  cbn [forallb src_TestScript_cmdEnv_loop1]. unfold has_kv at 1, split_kv. rewrite go_index_sep.
  destruct (TsParse.index_byte ts_env_sep kv) as [i|] eqn:E; cbn [andb].
  - pose proof (index_sep_lt kv i E) as Hi.
    unfold go_slice. rewrite slice_z_to by lia. go_red. rewrite src_envvarname_eq. go_red.
    destruct (negb (go_mapref_get false (Some p) (firstn i kv))); cbn [go_mapref_set]; go_red; apply IH.
  - reflexivity.
Qed.

Lemma env_listing_go_some m : forall l pr,
  forallb has_kv l = match env_listing_go m l pr with Some _ => true | None => false end.
Proof.
  induction l as [|kv l IH]; intros pr; [reflexivity|].
  cbn [forallb env_listing_go]. unfold has_kv at 1.
  destruct (split_kv kv) as [[k v]|]; [|reflexivity]. cbn [andb].
  destruct (mem_bytes k pr); [apply IH|].
  rewrite (IH (k :: pr)). now destruct (env_listing_go m l (k :: pr)).
Qed.

(* ------------------------------------------------------------------ cmdEnv *)

Theorem src_cmdEnv_eq line st neg args :
  src_TestScript_cmdEnv (recv_of line st) neg args =
  if neg then Ok Failed
  else match args with
       | [] => match env_listing st with
               | Some _ => Ok (Done (recv_of line st))
               | None => Panic
               end
       | _ :: _ => Ok (Done (recv_of line (cmd_env args st)))
       end.
Proof.
  unfold src_TestScript_cmdEnv. destruct neg; [reflexivity|].
  destruct args as [|a args].
  - cbn [len_of length Z.of_nat Z.eqb]. go_red. unfold go_mapref_make.
    pose proof (src_cmdEnv_list_loop unit (recv_of line st) (env_list st) []) as H.
    unfold env_listing. rewrite (env_listing_go_some (env_map st) (env_list st) []) in H.
    cbn [recv_of r_env].
    destruct (env_listing_go (env_map st) (env_list st) []).
    + destruct H as [p' H]. unfold Lib.Bytes.bytes in *. rewrite H. reflexivity.
    + unfold Lib.Bytes.bytes in *. rewrite H. reflexivity.
  - replace (len_of (a :: args) =? 0)%Z with false by (unfold len_of; cbn [length]; lia).
    rewrite src_cmdEnv_args_loop. reflexivity.
Qed.

(* a listing of entries that all hold "=" leaves the state as it is and does not panic *)
Theorem src_cmdEnv_listing_identity line st :
  forallb has_kv (env_list st) = true ->
  src_TestScript_cmdEnv (recv_of line st) false [] = Ok (Done (recv_of line st)).
Proof.
  intros H. rewrite src_cmdEnv_eq. unfold env_listing.
  rewrite (env_listing_go_some (env_map st) (env_list st) []) in H.
  now destruct (env_listing_go (env_map st) (env_list st) []).
Qed.

(* The laws of C02 stated on the functions of Gen/TsParseSrc.v, i.e. on testscript.go as
   translated by harness/go2coq: each follows from the equality of the translated function
   with the model (SrcFacts.v, SrcParseFacts.v) and the corresponding theorem about the model.

   [with_line r line] is the receiver after parse has recorded the line; [src_setenvs] is a
   sequence of calls of the translated Setenv.  Every statement holds for every iteration
   bound fuel greater than the length of the line (parse is the only function with a loop
   that needs a bound). *)
From Coq Require Import List Bool Arith ZArith NArith Lia.
From Coq.Strings Require Import Byte.
From GI Require Import Lib.Bytes Lib.GoSem Lib.GoSemState
  Gen.TsParseConsts Gen.TsParseSrc TsParse.TsParse TsParse.TsSpec TsParse.TsParseFacts TsParse.TsEnvFacts
  TsParse.TsRegexFacts TsParse.TsCmpFacts TsParse.TsScript TsParse.SrcLib TsParse.SrcFacts TsParse.SrcParseFacts
  TsParse.SrcCmdEnvFacts.
Import ListNotations.
Local Notation bytes := (list byte) (only parsing).

(* ts.line = line *)
Definition with_line (r : ts_recv) (line : bytes) : ts_recv :=
  {| r_line := line; r_env := r_env r; r_envMap := r_envMap r |}.

(* ts.Setenv(k1, v1); ts.Setenv(k2, v2); ... as translated *)
Fixpoint src_setenvs (r : ts_recv) (kvs : list (bytes * bytes)) : res ts_recv :=
  match kvs with
  | [] => Ok r
  | (k, v) :: rest => bind (src_TestScript_Setenv r k v) (fun r' => src_setenvs r' rest)
  end.

(* ------------------------------------------------------------------ parse *)

Theorem source_parse_total fuel r line : length line < fuel ->
  src_TestScript_parse fuel r line <> Panic /\ src_TestScript_parse fuel r line <> OutOfFuel.
Proof. intros H. rewrite src_parse_eq by assumption. split; discriminate. Qed.

(* what parse returns, read back as the model's option *)
Lemma src_parse_words fuel r line ws : length line < fuel ->
  ts_parse (env_of r) line = Some ws ->
  src_TestScript_parse fuel r line = Ok (Done (with_line r line, ws)).
Proof. intros Hf H. rewrite src_parse_eq by assumption. now rewrite H. Qed.

Theorem source_parse_failed_iff fuel r line : length line < fuel ->
  (src_TestScript_parse fuel r line = Ok Failed <-> ts_parse (env_of r) line = None).
Proof.
  intros Hf. rewrite src_parse_eq by assumption.
  destruct (ts_parse (env_of r) line); split; intros H; try discriminate; reflexivity.
Qed.

Theorem source_parse_quote_words fuel r ws : length (join_sp (map sq ws)) < fuel ->
  src_TestScript_parse fuel r (join_sp (map sq ws)) = Ok (Done (with_line r (join_sp (map sq ws)), ws)).
Proof. intros Hf. apply src_parse_words; [assumption|apply parse_quote_words]. Qed.

(* an unterminated quote is refused by Fatalf, not by a run-time panic *)
Example source_parse_unterminated :
  src_TestScript_parse 10 (recv_of [] (setup_env [])) [x61; x20; x27; x62] = Ok Failed.
Proof. vm_compute. reflexivity. Qed.

Theorem source_parse_expand_once fuel r cmd pre k post v :
  plain_word cmd -> plain_chunk pre -> plain_chunk post -> no_alnum_head post ->
  valid_name k -> src_TestScript_Getenv r k = Ok v ->
  length (cmd ++ SP :: pre ++ dollar :: k ++ post) < fuel ->
  src_TestScript_parse fuel r (cmd ++ SP :: pre ++ dollar :: k ++ post)
  = Ok (Done (with_line r (cmd ++ SP :: pre ++ dollar :: k ++ post), [cmd; pre ++ v ++ post])).
Proof.
  intros H1 H2 H3 H4 H5 Hg Hf. rewrite src_Getenv_eq in Hg. injection Hg as Hg.
  apply src_parse_words; [assumption|]. now apply parse_expand_once.
Qed.

Theorem source_parse_expand_once_brace fuel r cmd pre k post v :
  plain_word cmd -> plain_chunk pre -> plain_chunk post ->
  brace_word k -> strip_suffix ts_regex_suffix k = None -> src_TestScript_Getenv r k = Ok v ->
  length (cmd ++ SP :: pre ++ dollar :: lbrace :: k ++ rbrace :: post) < fuel ->
  src_TestScript_parse fuel r (cmd ++ SP :: pre ++ dollar :: lbrace :: k ++ rbrace :: post)
  = Ok (Done (with_line r (cmd ++ SP :: pre ++ dollar :: lbrace :: k ++ rbrace :: post), [cmd; pre ++ v ++ post])).
Proof.
  intros H1 H2 H3 H4 H5 Hg Hf. rewrite src_Getenv_eq in Hg. injection Hg as Hg.
  apply src_parse_words; [assumption|]. now apply parse_expand_once_brace.
Qed.

Theorem source_parse_expand_regex fuel r cmd pre k post v :
  plain_word cmd -> plain_chunk pre -> plain_chunk post ->
  brace_word k -> src_TestScript_Getenv r k = Ok v ->
  length (cmd ++ SP :: pre ++ dollar :: lbrace :: (k ++ ts_regex_suffix) ++ rbrace :: post) < fuel ->
  src_TestScript_parse fuel r (cmd ++ SP :: pre ++ dollar :: lbrace :: (k ++ ts_regex_suffix) ++ rbrace :: post)
  = Ok (Done (with_line r (cmd ++ SP :: pre ++ dollar :: lbrace :: (k ++ ts_regex_suffix) ++ rbrace :: post),
              [cmd; pre ++ quote_meta v ++ post])).
Proof.
  intros H1 H2 H3 H4 Hg Hf. rewrite src_Getenv_eq in Hg. injection Hg as Hg.
  apply src_parse_words; [assumption|]. now apply parse_expand_regex.
Qed.

Theorem source_expand_regex_denotes fuel r cmd k v :
  plain_word cmd -> brace_word k -> src_TestScript_Getenv r k = Ok v -> utf8_ok v = true ->
  length (cmd ++ SP :: dollar :: lbrace :: (k ++ ts_regex_suffix) ++ [rbrace]) < fuel ->
  exists p,
    src_TestScript_parse fuel r (cmd ++ SP :: dollar :: lbrace :: (k ++ ts_regex_suffix) ++ [rbrace])
    = Ok (Done (with_line r (cmd ++ SP :: dollar :: lbrace :: (k ++ ts_regex_suffix) ++ [rbrace]), [cmd; p]))
    /\ re_literal p = Some v.
Proof.
  intros H1 H2 Hg Hu Hf. rewrite src_Getenv_eq in Hg. injection Hg as Hg.
  destruct (expand_regex_denotes (env_of r) cmd k v H1 H2 Hg Hu) as [p [Hp Hl]].
  exists p. split; [|assumption]. now apply src_parse_words.
Qed.

(* ------------------------------------------------------------------ expand on a text (cmpenv) *)

Theorem source_expand_total r s : exists t, src_TestScript_expand r s = Ok t.
Proof. eexists. apply src_expand_eq. Qed.

Theorem source_expand_text_var r pre k post v :
  no_dollar pre -> valid_name k -> no_alnum_head post -> src_TestScript_Getenv r k = Ok v ->
  exists rest, src_TestScript_expand r post = Ok rest /\
    src_TestScript_expand r (pre ++ dollar :: k ++ post) = Ok (pre ++ v ++ rest).
Proof.
  intros H1 H2 H3 Hg. rewrite src_Getenv_eq in Hg. injection Hg as <-.
  exists (expand (env_of r) post). rewrite !src_expand_eq. split; [reflexivity|].
  now rewrite expand_text_var.
Qed.

Theorem source_expand_text_regex r pre k post v :
  no_dollar pre -> brace_ok k -> src_TestScript_Getenv r k = Ok v ->
  exists rest, src_TestScript_expand r post = Ok rest /\
    src_TestScript_expand r (pre ++ dollar :: lbrace :: (k ++ ts_regex_suffix) ++ rbrace :: post)
    = Ok (pre ++ quote_meta v ++ rest).
Proof.
  intros H1 H2 Hg. rewrite src_Getenv_eq in Hg. injection Hg as <-.
  exists (expand (env_of r) post). rewrite !src_expand_eq. split; [reflexivity|].
  now rewrite expand_text_regex.
Qed.

(* ------------------------------------------------------------------ Setenv / Getenv / setEnv *)

Lemma src_setenvs_eq : forall kvs line st,
  src_setenvs (recv_of line st) kvs =
  Ok (recv_of line (fold_left (fun s kv => setenv (fst kv) (snd kv) s) kvs st)).
Proof.
  induction kvs as [|[k v] kvs IH]; intros line st; [reflexivity|].
  cbn [src_setenvs fold_left fst snd]. rewrite src_Setenv_eq. cbn [bind]. apply IH.
Qed.

Lemma getenv_fold_other : forall kvs st k,
  Forall (fun kv => fst kv <> k) kvs ->
  getenv (fold_left (fun s kv => setenv (fst kv) (snd kv) s) kvs st) k = getenv st k.
Proof.
  induction kvs as [|[k' v'] kvs IH]; intros st k H; [reflexivity|].
  inversion H as [|? ? Hh Ht]; subst. cbn [fold_left fst snd] in *.
  rewrite IH by assumption. now apply getenv_setenv_other.
Qed.

(* after setEnv(vars) and any sequence of Setenv calls, Getenv and expansion see the value of the
   last call for the name; the calls never panic (the map was made by setEnv) *)
Theorem source_latest_wins r0 vars pre k v post :
  Forall (fun kv => fst kv <> k) post ->
  exists r1 r2,
    src_TestScript_setEnv r0 vars = Ok r1 /\
    src_setenvs r1 (pre ++ (k, v) :: post) = Ok r2 /\
    src_TestScript_Getenv r2 k = Ok v.
Proof.
  intros Hpost. eexists. eexists. split; [apply src_setEnv_eq|].
  rewrite src_setenvs_eq. split; [reflexivity|].
  rewrite src_Getenv_eq, env_of_recv_of, fold_left_app. cbn [fold_left fst snd].
  rewrite getenv_fold_other by assumption. f_equal. apply getenv_setenv_same.
Qed.

Theorem source_unassigned_keeps line st kvs k :
  Forall (fun kv => fst kv <> k) kvs ->
  exists r2, src_setenvs (recv_of line st) kvs = Ok r2 /\
    src_TestScript_Getenv r2 k = src_TestScript_Getenv (recv_of line st) k.
Proof.
  intros H. eexists. split; [apply src_setenvs_eq|].
  rewrite !src_Getenv_eq, !env_of_recv_of. f_equal. now apply getenv_fold_other.
Qed.

(* the lookup map agrees with the list handed to children in every state reached by the
   translated setEnv and Setenv (names without the KEY=VALUE separator: what cmdEnv passes) *)
Theorem source_envmap_agrees_with_list r0 vars kvs :
  Forall (fun kv => no_sep (fst kv)) kvs ->
  exists r1 r2,
    src_TestScript_setEnv r0 vars = Ok r1 /\ src_setenvs r1 kvs = Ok r2 /\ consistent (env_of r2).
Proof.
  intros Hk. eexists. eexists. split; [apply src_setEnv_eq|]. rewrite src_setenvs_eq. split; [reflexivity|].
  rewrite env_of_recv_of. revert Hk. generalize (setup_consistent vars). generalize (setup_env vars).
  intros st Hst Hk. revert st Hst. induction kvs as [|[k v] kvs IH]; intros st Hst; [exact Hst|].
  inversion Hk as [|? ? Hh Ht]; subst. cbn [fold_left fst snd] in *. apply IH; [assumption|].
  now apply setenv_consistent.
Qed.

(* ... and a variable set by Setenv is expanded, once, by a later parse *)
Theorem source_setenv_then_parse fuel line0 st cmd pre k post v :
  plain_word cmd -> plain_chunk pre -> plain_chunk post -> no_alnum_head post -> valid_name k ->
  length (cmd ++ SP :: pre ++ dollar :: k ++ post) < fuel ->
  exists r1,
    src_TestScript_Setenv (recv_of line0 st) k v = Ok r1 /\
    src_TestScript_parse fuel r1 (cmd ++ SP :: pre ++ dollar :: k ++ post)
    = Ok (Done (with_line r1 (cmd ++ SP :: pre ++ dollar :: k ++ post), [cmd; pre ++ v ++ post])).
Proof.
  intros H1 H2 H3 H4 H5 Hf. eexists. split; [apply src_Setenv_eq|].
  apply source_parse_expand_once; try assumption.
  rewrite src_Getenv_eq, env_of_recv_of. f_equal. apply getenv_setenv_same.
Qed.

(* ------------------------------------------------------------------ the env command *)

(* env ... K=V ...: after the translated command the translated Getenv returns the value of the last
   assignment to the name on the line *)
Theorem source_env_latest_wins line st pre k v post :
  no_sep k -> Forall (not_assign k) post ->
  exists r', src_TestScript_cmdEnv (recv_of line st) false (pre ++ (k ++ ts_env_sep :: v) :: post) = Ok (Done r') /\
    src_TestScript_Getenv r' k = Ok v.
Proof.
  intros Hk Hp. eexists. split.
  - rewrite src_cmdEnv_eq. destruct pre; reflexivity.
  - rewrite src_Getenv_eq, env_of_recv_of. f_equal. now apply latest_wins.
Qed.

(* ! env is refused by Fatalf *)
Theorem source_env_negated r args : src_TestScript_cmdEnv r true args = Ok Failed.
Proof. reflexivity. Qed.

(* ------------------------------------------------------------------ the hypotheses are satisfiable, the bound is
   needed, and the failure values of the translation are real *)
Require Coq.Strings.String.
Import Coq.Strings.String.StringSyntax.
Delimit Scope string_scope with string.
Definition Bs (s : String.string) : bytes := String.list_byte_of_string s.
Arguments Bs s%string.

Definition ex_recv : ts_recv := recv_of [] (setup_env [Bs "WORK=/tmp/w"; Bs "X=a.b"; Bs "novalue"]).

Example ex_src_parse :
  src_TestScript_parse 40 ex_recv (Bs "exec 'a  b''c' $WORK/x ${X@R}$X # $WORK")
  = Ok (Done (with_line ex_recv (Bs "exec 'a  b''c' $WORK/x ${X@R}$X # $WORK"),
              [Bs "exec"; Bs "a  b'c"; Bs "/tmp/w/x"; Bs "a\.ba.b"])).
Proof. vm_compute. reflexivity. Qed.

Example ex_src_fuel_needed :
  src_TestScript_parse 3 ex_recv (Bs "a b") = OutOfFuel /\
  src_TestScript_parse 4 ex_recv (Bs "a b") = Ok (Done (with_line ex_recv (Bs "a b"), [Bs "a"; Bs "b"])).
Proof. vm_compute. split; reflexivity. Qed.

Example ex_src_failed_not_panic :
  src_TestScript_parse 9 ex_recv (Bs "a 'b") = Ok Failed /\
  src_TestScript_Setenv {| r_line := []; r_env := []; r_envMap := go_mapref_nil |} (Bs "K") (Bs "v") = Panic.
Proof. vm_compute. split; reflexivity. Qed.

Example ex_src_setenv_getenv :
  exists r1 r2, src_TestScript_setEnv {| r_line := []; r_env := []; r_envMap := go_mapref_nil |} [Bs "K=old"; Bs "L=1"] = Ok r1 /\
    src_setenvs r1 [(Bs "K", Bs "v1"); (Bs "M", Bs "m"); (Bs "K", Bs "v2"); (Bs "L", Bs "2")] = Ok r2 /\
    src_TestScript_Getenv r2 (Bs "K") = Ok (Bs "v2") /\ src_TestScript_expand r2 (Bs "$K-${L}-$M-$none.") = Ok (Bs "v2-2-m-.") /\
    r_env r2 = [Bs "K=old"; Bs "L=1"; Bs "K=v1"; Bs "M=m"; Bs "K=v2"; Bs "L=2"].
Proof. eexists. eexists. vm_compute. repeat split; reflexivity. Qed.

Example ex_src_cmdenv :
  exists r1 r2, src_TestScript_setEnv {| r_line := []; r_env := []; r_envMap := go_mapref_nil |} [Bs "K=old"; Bs "junk"] = Ok r1 /\
    src_TestScript_cmdEnv r1 false [Bs "K=v1"; Bs "M"; Bs "K=v=2"] = Ok (Done r2) /\
    src_TestScript_Getenv r2 (Bs "K") = Ok (Bs "v=2") /\
    (* the listing panics on the entry without "=" (kv[:-1]), as the Go code does *)
    src_TestScript_cmdEnv r2 false [] = Panic /\
    src_TestScript_cmdEnv (recv_of [] (setup_env [Bs "K=old"; Bs "K=new"])) false [] = Ok (Done (recv_of [] (setup_env [Bs "K=old"; Bs "K=new"]))).
Proof. eexists. eexists. vm_compute. repeat split; reflexivity. Qed.

(* the hypotheses of source_parse_expand_once / _regex hold of ordinary words *)
Example ex_src_expand_hyps :
  plain_word (Bs "exec") /\ plain_chunk (Bs "a-") /\ plain_chunk (Bs "/x") /\ no_alnum_head (Bs "/x") /\
  valid_name (Bs "WORK") /\ brace_word (Bs "X") /\ src_TestScript_Getenv ex_recv (Bs "WORK") = Ok (Bs "/tmp/w").
Proof.
  unfold plain_word, plain_chunk, no_alnum_head, valid_name, brace_word, brace_ok.
  repeat split; try reflexivity; try discriminate.
Qed.

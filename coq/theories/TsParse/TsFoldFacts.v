(* C02 — with envvarname as a parameter: the map agrees with the list up to folding, the latest
   assignment to any spelling of a name wins; the identity instance is the model of TsParse.v. *)
From Coq Require Import List Bool Arith NArith Lia.
From Coq.Strings Require Import Byte.
From GI Require Import Lib.Bytes Gen.TsParseConsts TsParse.TsParse TsParse.TsSpec TsParse.TsFold
  TsParse.TsParseFacts TsParse.TsEnvFacts.
Import ListNotations.
Local Notation bytes := (list byte) (only parsing).

Section FoldFacts.
  Variable fold : bytes -> bytes.

  Definition consistent_f (st : ts_env) : Prop :=
    forall k, getenv_f fold st k = or_empty (list_get_f fold (env_list st) k).

  Lemma list_get_f_app : forall a b k,
    list_get_f fold (a ++ b) k
    = match list_get_f fold b k with Some v => Some v | None => list_get_f fold a k end.
  Proof.
    intros a b k. induction a as [|x a IH]; simpl.
    - destruct (list_get_f fold b k); reflexivity.
    - rewrite IH. destruct (list_get_f fold b k); reflexivity.
  Qed.

  Lemma setup_map_f_spec : forall vars m0 k,
    map_get (fold_left (fun m kv => match split_kv kv with
                                    | Some (k, v) => map_set (fold k) v m
                                    | None => m
                                    end) vars m0) (fold k)
    = match list_get_f fold vars k with Some v => v | None => map_get m0 (fold k) end.
  Proof.
    induction vars as [|kv vars IH]; intros m0 k; [reflexivity|].
    simpl fold_left. rewrite IH. simpl list_get_f.
    destruct (list_get_f fold vars k); [reflexivity|].
    destruct (split_kv kv) as [[k' v]|]; [|reflexivity].
    simpl. destruct (bytes_eqb (fold k') (fold k)); reflexivity.
  Qed.

  Theorem setup_consistent_f : forall vars, consistent_f (setup_env_f fold vars).
  Proof.
    intros vars k. unfold getenv_f, setup_env_f. simpl env_map. simpl env_list.
    rewrite setup_map_f_spec. destruct (list_get_f fold vars k); reflexivity.
  Qed.

  Theorem setenv_consistent_f : forall st k v,
    no_sep k -> consistent_f st -> consistent_f (setenv_f fold k v st).
  Proof.
    intros st k v Hk Hc k0. unfold setenv_f at 2. simpl env_list.
    rewrite list_get_f_app. simpl list_get_f. rewrite (split_kv_build k v Hk).
    unfold getenv_f, setenv_f. simpl env_map. simpl map_get.
    destruct (bytes_eqb (fold k) (fold k0)); [reflexivity|]. apply Hc.
  Qed.

  Theorem cmd_env_consistent_f : forall args st, consistent_f st -> consistent_f (cmd_env_f fold args st).
  Proof.
    induction args as [|a args IH]; intros st Hc; [exact Hc|].
    simpl. apply IH. unfold cmd_env_arg_f. destruct (split_kv a) as [[k v]|] eqn:E; [|exact Hc].
    apply setenv_consistent_f; [exact (proj2 (split_kv_inv a k v E))|exact Hc].
  Qed.

  Theorem reachable_consistent_f : forall vars args,
    consistent_f (cmd_env_f fold args (setup_env_f fold vars)).
  Proof. intros vars args. exact (cmd_env_consistent_f args _ (setup_consistent_f vars)). Qed.

  (* the argument does not assign any spelling of k *)
  Definition not_assign_f (k a : bytes) : Prop :=
    forall k' v', split_kv a = Some (k', v') -> fold k' <> fold k.

  Theorem unassigned_keeps_f : forall args st k,
    Forall (not_assign_f k) args -> getenv_f fold (cmd_env_f fold args st) k = getenv_f fold st k.
  Proof.
    induction args as [|a args IH]; intros st k H; [reflexivity|].
    inversion H as [|x l Ha Hargs]; subst. simpl. rewrite (IH _ k Hargs).
    unfold cmd_env_arg_f. destruct (split_kv a) as [[k' v']|] eqn:E; [|reflexivity].
    unfold getenv_f, setenv_f. simpl env_map. simpl map_get.
    rewrite (bytes_eqb_neq (fold k') (fold k) (Ha k' v' E)). reflexivity.
  Qed.

  (* the latest assignment to any spelling of the name wins *)
  Lemma cmd_env_f_app : forall a b st, cmd_env_f fold (a ++ b) st = cmd_env_f fold b (cmd_env_f fold a st).
  Proof. intros. unfold cmd_env_f. apply fold_left_app. Qed.

  Lemma cmd_env_f_cons : forall a b st, cmd_env_f fold (a :: b) st = cmd_env_f fold b (cmd_env_arg_f fold st a).
  Proof. reflexivity. Qed.

  Theorem latest_wins_f : forall st pre k k0 v post,
    no_sep k -> fold k = fold k0 -> Forall (not_assign_f k0) post ->
    getenv_f fold (cmd_env_f fold (pre ++ (k ++ ts_env_sep :: v) :: post) st) k0 = v.
  Proof.
    intros st pre k k0 v post Hk Hf Hpost. rewrite cmd_env_f_app, cmd_env_f_cons.
    rewrite (unassigned_keeps_f post _ k0 Hpost).
    unfold cmd_env_arg_f. rewrite (split_kv_build k v Hk).
    unfold getenv_f, setenv_f. simpl env_map. simpl map_get. rewrite Hf, bytes_eqb_refl. reflexivity.
  Qed.
End FoldFacts.

(* ------------------------------------------------------------------ the two instances *)

Definition id_fold (k : bytes) : bytes := k.

Theorem fold_id_is_model : forall st k v vars args,
  getenv_f id_fold st k = getenv st k /\
  setenv_f id_fold k v st = setenv k v st /\
  setup_env_f id_fold vars = setup_env vars /\
  cmd_env_f id_fold args st = cmd_env args st.
Proof.
  intros st k v vars args. repeat split.
Qed.

From Coq Require Import String.
(* Windows: Path and PATH are one variable *)
Example windows_fold_ex :
  let st := cmd_env_f lower [bs "Path=C:\a"%string; bs "X=1"%string; bs "PATH=C:\b"%string] (setup_env_f lower []) in
  lower (bs "SystemRoot"%string) = bs "systemroot"%string /\
  getenv_f lower st (bs "path"%string) = bs "C:\b"%string /\
  getenv_f lower st (bs "Path"%string) = bs "C:\b"%string /\
  getenv_f id_fold (cmd_env_f id_fold [bs "Path=C:\a"%string; bs "PATH=C:\b"%string] (setup_env_f id_fold []))
           (bs "Path"%string) = bs "C:\a"%string.
Proof. vm_compute. repeat split. Qed.

(* C02 — testscript word splitting, quoting, variable expansion and the environment.
   Executable model, definitions only (proofs: TsParseFacts.v, TsEnvFacts.v, TsRegexFacts.v).

   Go code followed:
     testscript/testscript.go  TestScript.parse, expand, Setenv, Getenv, setup (envMap),
                               exec / execBackground (cmd.Env = append(ts.env, "PWD="+ts.cd))
     testscript/cmd.go         TestScript.cmdEnv
     GOROOT os/env.go          Expand, getShellName, isShellSpecialVar, isAlphaNum
     GOROOT regexp/regexp.go   QuoteMeta, special
     GOROOT os/exec/exec.go    dedupEnv (what Cmd.Start hands to the child)
     GOROOT regexp/syntax      the fragment "literal characters and escaped punctuation"
   Every literal of the repository code comes from Gen/TsParseConsts.v. *)
From Coq Require Import List Bool Arith NArith.
From Coq.Strings Require Import Byte.
From GI Require Import Lib.Bytes Gen.TsParseConsts.
Import ListNotations.

(* [bytes] is used as a plain abbreviation here, so that every implicit type argument is
   literally [list byte] (the constant Lib.Bytes.bytes is convertible to it, but rewriting
   is syntactic) *)
Local Notation bytes := (list byte) (only parsing).

(* ------------------------------------------------------------------ small helpers *)

(* strings.IndexByte; None = -1 *)
Fixpoint index_byte (b : byte) (s : bytes) : option nat :=
  match s with
  | [] => None
  | c :: r => if beq c b then Some 0 else option_map S (index_byte b r)
  end.

Definition is_nil {A} (l : list A) : bool := match l with [] => true | _ => false end.

Fixpoint mem_bytes (k : bytes) (l : list bytes) : bool :=
  match l with [] => false | x :: r => bytes_eqb x k || mem_bytes k r end.

(* ------------------------------------------------------------------ the environment *)

(* KEY=VALUE split at the first separator (strings.Index(kv, "=")); None = no separator *)
Definition split_kv (kv : bytes) : option (bytes * bytes) :=
  match index_byte ts_env_sep kv with
  | Some i => Some (firstn i kv, skipn (S i) kv)
  | None => None
  end.

(* Go map[string]string: newest binding first; a miss yields "" *)
Definition envmap := list (bytes * bytes).
Fixpoint map_get (m : envmap) (k : bytes) : bytes :=
  match m with
  | [] => []
  | (k', v) :: r => if bytes_eqb k' k then v else map_get r k
  end.
Definition map_set (k v : bytes) (m : envmap) : envmap := (k, v) :: m.

(* ts.env (ordered KEY=VALUE list, handed to children) and ts.envMap (used for expansion) *)
Record ts_env := { env_list : list bytes; env_map : envmap }.

(* TestScript.Getenv *)
Definition getenv (st : ts_env) (k : bytes) : bytes := map_get (env_map st) k.

(* TestScript.Setenv: ts.env = append(ts.env, key+"="+value); ts.envMap[key] = value *)
Definition setenv (k v : bytes) (st : ts_env) : ts_env :=
  {| env_list := env_list st ++ [k ++ ts_env_sep :: v];
     env_map := map_set k v (env_map st) |}.

(* end of setup: ts.env = env.Vars; envMap filled in list order; entries without "=" are
   kept in the list and ignored by the map *)
Definition setup_map (vars : list bytes) : envmap :=
  fold_left (fun m kv => match split_kv kv with
                         | Some (k, v) => map_set k v m
                         | None => m
                         end) vars [].
Definition setup_env (vars : list bytes) : ts_env :=
  {| env_list := vars; env_map := setup_map vars |}.

(* cmdEnv with arguments (neg = false): K=V sets, a bare name only displays *)
Definition cmd_env_arg (st : ts_env) (a : bytes) : ts_env :=
  match split_kv a with
  | Some (k, v) => setenv k v st
  | None => st
  end.
Definition cmd_env (args : list bytes) (st : ts_env) : ts_env := fold_left cmd_env_arg args st.

(* ------------------------------------------------------------------ os.Expand *)

Definition dollar : byte := x24.
Definition lbrace : byte := x7b.
Definition rbrace : byte := x7d.

(* os.isAlphaNum *)
Definition is_alnum (c : byte) : bool :=
  beq c x5f || in_range 48 57 c || in_range 97 122 c || in_range 65 90 c.
(* os.isShellSpecialVar *)
Definition is_shell_special (c : byte) : bool := mem_byte c shell_special_bytes.

Fixpoint take_alnum (s : bytes) : bytes :=
  match s with
  | c :: r => if is_alnum c then c :: take_alnum r else []
  | [] => []
  end.

(* the "scan to closing brace" loop of getShellName; r = s[1:] *)
Definition brace_name (r : bytes) : bytes * nat :=
  match index_byte rbrace r with
  | Some 0 => ([], 2)                  (* bad syntax; eat "${}" *)
  | Some n => (firstn n r, n + 2)      (* s[1:i], i+1 with i = n+1 *)
  | None => ([], 1)                    (* bad syntax; eat "${" *)
  end.

(* os.getShellName (c :: r) — the caller guarantees a non-empty argument, so the head is
   passed separately and s[0] cannot be out of range *)
Definition get_shell_name (c : byte) (r : bytes) : bytes * nat :=
  if beq c lbrace then
    match r with
    | c1 :: c2 :: _ =>
        if is_shell_special c1 && beq c2 rbrace then ([c1], 3) else brace_name r
    | _ => brace_name r
    end
  else if is_shell_special c then ([c], 1)
  else let n := take_alnum (c :: r) in (n, length n).

(* os.Expand: [skip] is the number of bytes the loop variable still has to jump over
   (j += w); the output is buf ++ s[i:] *)
Fixpoint expand_go (mapping : bytes -> bytes) (s : bytes) (skip : nat) : bytes :=
  match s with
  | [] => []
  | c :: r =>
      match skip with
      | S k => expand_go mapping r k
      | O =>
          match r with
          | c' :: r' =>
              if beq c dollar then
                let '(name, w) := get_shell_name c' r' in
                (match name, w with
                 | [], O => [c]            (* valid syntax, no name: the dollar stays *)
                 | [], S _ => []           (* invalid syntax: eaten *)
                 | _, _ => mapping name
                 end) ++ expand_go mapping r w
              else c :: expand_go mapping r 0
          | [] => [c]                      (* j+1 < len(s) fails: copied *)
          end
      end
  end.
Definition os_expand (mapping : bytes -> bytes) (s : bytes) : bytes := expand_go mapping s 0.

(* ------------------------------------------------------------------ regexp.QuoteMeta *)

Definition backslash : byte := x5c.
Definition re_special (b : byte) : bool := mem_byte b regexp_special_bytes.
Definition quote_meta (s : bytes) : bytes :=
  flat_map (fun b => if re_special b then [backslash; b] else [b]) s.

(* ------------------------------------------------------------------ TestScript.expand *)

(* strings.TrimSuffix(key, suf) together with the test len(key1) != len(key) *)
Definition strip_suffix (suf key : bytes) : option bytes :=
  if has_suffix suf key && negb (is_nil suf)
  then Some (firstn (length key - length suf) key) else None.

Definition expand_key (st : ts_env) (key : bytes) : bytes :=
  match strip_suffix ts_regex_suffix key with
  | Some key1 => quote_meta (getenv st key1)
  | None => getenv st key
  end.
Definition expand (st : ts_env) (s : bytes) : bytes := os_expand (expand_key st) s.

(* ------------------------------------------------------------------ TestScript.parse *)

Definition is_sep (c : byte) : bool := mem_byte c ts_sep_bytes.
Definition is_comment (c : byte) : bool := mem_byte c ts_comment_bytes.

(* "if start >= 0 { arg += ts.expand(line[start:i]) }"; chunk = Some line[start:i] when start >= 0 *)
Definition add_chunk (st : ts_env) (arg : bytes) (chunk : option bytes) : bytes :=
  match chunk with Some ch => arg ++ expand st ch | None => arg end.
(* "if start >= 0 { ...; args = append(args, arg) }" *)
Definition flush_arg (st : ts_env) (args : list bytes) (arg : bytes) (chunk : option bytes) : list bytes :=
  match chunk with Some ch => args ++ [arg ++ expand st ch] | None => args end.
Definition chunk_bytes (chunk : option bytes) : bytes :=
  match chunk with Some ch => ch | None => [] end.

(* The loop of parse over the remaining bytes l = line[i:], with the Go variables args, arg,
   line[start:i] (None when start < 0) and quoted.  None = Fatalf("unterminated quoted argument"). *)
Fixpoint parse_go (st : ts_env) (l : bytes) (args : list bytes) (arg : bytes)
         (chunk : option bytes) (quoted : bool) : option (list bytes) :=
  match l with
  | [] => if quoted then None else Some (flush_arg st args arg chunk)
  | c :: r =>
      if negb quoted && is_sep c then
        if is_comment c then Some (flush_arg st args arg chunk)
        else parse_go st r (flush_arg st args arg chunk) [] None false
      else if beq c ts_quote then
        if negb quoted then
          (* starting a quoted chunk *)
          parse_go st r args (add_chunk st arg chunk) (Some []) true
        else
          match r with
          | c2 :: r2 =>
              if beq c2 ts_quote_next then
                (* 'foo''bar': the new chunk starts at the second quote *)
                parse_go st r2 args (arg ++ chunk_bytes chunk) (Some [c2]) true
              else parse_go st r args (arg ++ chunk_bytes chunk) (Some []) false
          | [] => parse_go st r args (arg ++ chunk_bytes chunk) (Some []) false
          end
      else
        (* character worth saving *)
        parse_go st r args arg (Some (chunk_bytes chunk ++ [c])) quoted
  end.

Definition ts_parse (st : ts_env) (line : bytes) : option (list bytes) :=
  parse_go st line [] [] None false.

(* ------------------------------------------------------------------ cmp / cmpenv *)

(* doCmdCmp with the texts of the two files already read (UpdateScripts off): text2 goes through
   ts.expand exactly once when the command is cmpenv, text1 never; true = the command returns,
   false = Fatalf (the files differ / do not differ / the two names are the same) *)
Definition do_cmd_cmp (st : ts_env) (neg env : bool) (name1 name2 text1 text2 : bytes) : bool :=
  if bytes_eqb name1 name2 then false
  else
    let text2' := if env then expand st text2 else text2 in
    let eq := bytes_eqb text1 text2' in
    if neg then negb eq else eq.

(* ------------------------------------------------------------------ what a child sees *)

Definition eq_byte : byte := x3d.
Definition nul_byte : byte := x00.

(* the key os/exec.dedupEnv gives an entry; None = not of the form key=value *)
Definition dedup_key (kv : bytes) : option bytes :=
  match index_byte eq_byte kv with
  | Some 0 =>
      (* a single leading "=" is part of the key: i = strings.Index(kv[1:], "=") + 1 *)
      match index_byte eq_byte (tl kv) with
      | Some j => Some (firstn (S j) kv)
      | None => Some []
      end
  | Some i => Some (firstn i kv)
  | None => None
  end.

(* the loop of dedupEnvCase over env[n-1], env[n-2], ...: output in processing order *)
Fixpoint dedup_rev (renv : list bytes) (saw : list bytes) : list bytes :=
  match renv with
  | [] => []
  | kv :: r =>
      match dedup_key kv with
      | None => if is_nil kv then dedup_rev r saw else kv :: dedup_rev r saw
      | Some k => if mem_bytes k saw then dedup_rev r saw else kv :: dedup_rev r (k :: saw)
      end
  end.

(* dedupEnv; None = "exec: environment variable contains NUL" (Start fails) *)
Definition dedup_env (env : list bytes) : option (list bytes) :=
  if existsb (mem_byte nul_byte) env then None
  else Some (rev (dedup_rev (rev env) [])).

(* cmd.Env = append(ts.env, "PWD="+ts.cd), then Cmd.environ *)
Definition child_env (st : ts_env) (cd : bytes) : option (list bytes) :=
  dedup_env (env_list st ++ [ts_pwd_prefix ++ cd]).

(* getenv(3) / syscall.Getenv in the child: first entry whose text before the first "=" is k *)
Fixpoint child_lookup (k : bytes) (l : list bytes) : option bytes :=
  match l with
  | [] => None
  | kv :: r =>
      match index_byte eq_byte kv with
      | Some i => if bytes_eqb (firstn i kv) k then Some (skipn (S i) kv) else child_lookup k r
      | None => child_lookup k r
      end
  end.

(* the name of the variable exec overrides *)
Definition pwd_key : bytes :=
  match split_kv ts_pwd_prefix with Some (k, _) => k | None => ts_pwd_prefix end.

(* ------------------------------------------------------------------ one script line (correspondence glue) *)

(* a line whose first word is the env command changes the environment; everything else
   (other commands, conditions, "!") belongs to the interpreter model of group TsRun *)
Definition ts_step (st : ts_env) (line : bytes) : ts_env * option (list bytes) :=
  let r := ts_parse st line in
  match r with
  | Some (c :: args) => if bytes_eqb c ts_env_cmd then (cmd_env args st, r) else (st, r)
  | _ => (st, r)
  end.

(* ------------------------------------------------------------------ quoting used in the statements *)

(* sq w = ' ++ (w with every ' doubled) ++ ' *)
Definition dbl_quotes (w : bytes) : bytes :=
  flat_map (fun c => if beq c ts_quote then [ts_quote; ts_quote] else [c]) w.
Definition sq (w : bytes) : bytes := ts_quote :: dbl_quotes w ++ [ts_quote].

Fixpoint join_sp (ws : list bytes) : bytes :=
  match ws with
  | [] => []
  | [w] => w
  | w :: r => w ++ SP :: join_sp r
  end.

(* number of quote characters: the tokenizer is inside quotes exactly when it has consumed
   an odd number of them *)
Fixpoint in_quote_after (l : bytes) (q : bool) : bool :=
  match l with
  | [] => q
  | c :: r => in_quote_after r (if beq c ts_quote then negb q else q)
  end.

(* ------------------------------------------------------------------ UTF-8 and the literal fragment of RE2 *)

(* unicode/utf8.Valid as a DFA over bytes: [need] continuation bytes are still expected and
   the next one must lie in [lo, hi] *)
Fixpoint utf8_dfa (d : bytes) (need : nat) (lo hi : N) : bool :=
  match d with
  | [] => match need with O => true | _ => false end
  | b :: r =>
      match need with
      | O =>
          if N.ltb (bN b) 128 then utf8_dfa r 0 128 191
          else if in_range 194 223 b then utf8_dfa r 1 128 191
          else if N.eqb (bN b) 224 then utf8_dfa r 2 160 191
          else if N.eqb (bN b) 237 then utf8_dfa r 2 128 159
          else if in_range 225 239 b then utf8_dfa r 2 128 191
          else if N.eqb (bN b) 240 then utf8_dfa r 3 144 191
          else if N.eqb (bN b) 244 then utf8_dfa r 3 128 143
          else if in_range 241 243 b then utf8_dfa r 3 128 191
          else false
      | S n => if in_range lo hi b then utf8_dfa r n 128 191 else false
      end
  end.
Definition utf8_ok (d : bytes) : bool := utf8_dfa d 0 128 191.

(* regexp/syntax: "\c" with c < utf8.RuneSelf && !isalnum(c) is the literal c *)
Definition re_isalnum (c : byte) : bool :=
  in_range 48 57 c || in_range 65 90 c || in_range 97 122 c.
Definition esc_punct (c : byte) : bool := N.ltb (bN c) 128 && negb (re_isalnum c).

(* The RE2 grammar restricted to a sequence of literal characters and escaped punctuation:
   [re_literal p = Some s] means that p belongs to that fragment and denotes exactly the
   string s; None = outside the fragment (an unescaped metacharacter, an escape that is not
   punctuation, a dangling backslash, invalid UTF-8).  Metacharacters are ASCII, so the scan
   is bytewise. *)
Fixpoint lit_go (p : bytes) : option bytes :=
  match p with
  | [] => Some []
  | b :: r =>
      if beq b backslash then
        match r with
        | c :: r' => if esc_punct c then option_map (cons c) (lit_go r') else None
        | [] => None
        end
      else if re_special b then None
      else option_map (cons b) (lit_go r)
  end.
Definition re_literal (p : bytes) : option bytes := if utf8_ok p then lit_go p else None.

(* C02 — facts about the tokenizer and expansion model of TsParse.v. *)
From Coq Require Import List Bool Arith NArith Lia.
From Coq.Strings Require Import Byte.
From GI Require Import Lib.Bytes Gen.TsParseConsts TsParse.TsParse TsParse.TsSpec.
Import ListNotations.

(* [bytes] is used as a plain abbreviation here, so that every implicit type argument is
   literally [list byte] (the constant Lib.Bytes.bytes is convertible to it, but rewriting
   is syntactic) *)
Local Notation bytes := (list byte) (only parsing).

(* ------------------------------------------------------------------ bytes *)

Lemma beq_true : forall a b, beq a b = true -> a = b.
Proof. intros a b H. apply Byte.byte_dec_bl. exact H. Qed.

Lemma beq_refl : forall a, beq a a = true.
Proof. intros a. apply Byte.byte_dec_lb. reflexivity. Qed.

Lemma beq_false : forall a b, beq a b = false -> a <> b.
Proof. intros a b H. apply Byte.eqb_false. exact H. Qed.

Lemma beq_neq : forall a b, a <> b -> beq a b = false.
Proof.
  intros a b H. destruct (beq a b) eqn:E; [|reflexivity].
  exfalso. apply H. apply beq_true. exact E.
Qed.

Lemma bytes_eqb_true : forall a b, bytes_eqb a b = true -> a = b.
Proof.
  induction a as [|x a IH]; intros [|y b] H; simpl in H; try discriminate; [reflexivity|].
  apply andb_true_iff in H. destruct H as [H1 H2].
  apply beq_true in H1. apply IH in H2. subst. reflexivity.
Qed.

Lemma bytes_eqb_refl : forall a, bytes_eqb a a = true.
Proof. induction a as [|x a IH]; simpl; [reflexivity|]. rewrite beq_refl, IH. reflexivity. Qed.

Lemma bytes_eqb_neq : forall a b, a <> b -> bytes_eqb a b = false.
Proof.
  intros a b H. destruct (bytes_eqb a b) eqn:E; [|reflexivity].
  exfalso. apply H. apply bytes_eqb_true. exact E.
Qed.

Lemma bytes_eqb_false : forall a b, bytes_eqb a b = false -> a <> b.
Proof. intros a b H E. subst. rewrite bytes_eqb_refl in H. discriminate. Qed.

Lemma mem_byte_in : forall b l, mem_byte b l = true -> In b l.
Proof.
  intros b l H. unfold mem_byte in H. apply existsb_exists in H.
  destruct H as [x [Hin Hx]]. apply beq_true in Hx. subst. exact Hin.
Qed.

Lemma in_mem_byte : forall b l, In b l -> mem_byte b l = true.
Proof.
  intros b l H. unfold mem_byte. apply existsb_exists. exists b. split; [exact H|apply beq_refl].
Qed.

Lemma mem_byte_forallb : forall (p : byte -> bool) l b,
  forallb p l = true -> mem_byte b l = true -> p b = true.
Proof.
  intros p l b Hall Hm. apply mem_byte_in in Hm.
  rewrite forallb_forall in Hall. apply Hall. exact Hm.
Qed.

(* ------------------------------------------------------------------ index_byte *)

Lemma index_byte_app_notin : forall b k rest,
  index_byte b k = None ->
  index_byte b (k ++ b :: rest) = Some (length k).
Proof.
  intros b k rest. induction k as [|c k IH]; simpl; intros H.
  - rewrite beq_refl. reflexivity.
  - destruct (beq c b); [discriminate|].
    destruct (index_byte b k); [discriminate|].
    rewrite IH by reflexivity. reflexivity.
Qed.

Lemma index_byte_app_found : forall b p i rest,
  index_byte b p = Some i -> index_byte b (p ++ rest) = Some i.
Proof.
  intros b p. induction p as [|c p IH]; simpl; intros i rest H; [discriminate|].
  destruct (beq c b); [exact H|].
  destruct (index_byte b p) as [j|] eqn:E; [|discriminate].
  rewrite (IH j rest eq_refl). exact H.
Qed.

Lemma index_byte_none_notin : forall b k, index_byte b k = None <-> ~ In b k.
Proof.
  intros b k. induction k as [|c k IH]; simpl.
  - split; [intros _ []|reflexivity].
  - destruct (beq c b) eqn:E.
    + apply beq_true in E. subst. split; [discriminate|]. intros H. exfalso. apply H. left. reflexivity.
    + apply beq_false in E. destruct (index_byte b k) eqn:E2; simpl.
      * split; [discriminate|]. intros H. exfalso.
        assert (~ In b k) as H3 by (intros H4; apply H; right; exact H4).
        apply IH in H3. discriminate.
      * split; [|reflexivity]. intros _ [H|H]; [apply E; exact H|].
        destruct IH as [IH1 _]. apply (IH1 eq_refl). exact H.
Qed.

Lemma index_byte_some : forall b s i,
  index_byte b s = Some i ->
  s = firstn i s ++ b :: skipn (S i) s /\ index_byte b (firstn i s) = None /\ length (firstn i s) = i.
Proof.
  intros b s. induction s as [|c s IH]; simpl; intros i H; [discriminate|].
  destruct (beq c b) eqn:E.
  - injection H as H. subst i. apply beq_true in E. subst c. simpl. auto.
  - destruct (index_byte b s) as [j|] eqn:E2; [|discriminate].
    simpl in H. injection H as H. subst i.
    destruct (IH j eq_refl) as [H1 [H2 H3]]. simpl. rewrite E, H2. simpl.
    split; [f_equal; exact H1|]. split; [reflexivity|]. f_equal. exact H3.
Qed.

(* ------------------------------------------------------------------ facts about the regenerated constants
   (each is a closed computation on Gen/TsParseConsts.v: an edit of the tokenizer's literals in the
   repository re-opens exactly these) *)

Lemma quote_next_is_quote : ts_quote_next = ts_quote.
Proof. reflexivity. Qed.

Lemma comment_bytes_are_seps : forallb is_sep ts_comment_bytes = true.
Proof. reflexivity. Qed.

Lemma comment_is_sep : forall c, is_comment c = true -> is_sep c = true.
Proof. intros c H. exact (mem_byte_forallb is_sep ts_comment_bytes c comment_bytes_are_seps H). Qed.

Lemma quote_not_sep : is_sep ts_quote = false.
Proof. reflexivity. Qed.

Lemma sp_is_blank : is_sep SP = true /\ is_comment SP = false.
Proof. split; reflexivity. Qed.

Lemma dollar_word_byte : is_sep dollar = false /\ beq dollar ts_quote = false.
Proof. split; reflexivity. Qed.

Lemma braces_word_bytes :
  is_sep lbrace = false /\ beq lbrace ts_quote = false /\ is_sep rbrace = false /\ beq rbrace ts_quote = false.
Proof. repeat split; reflexivity. Qed.

Lemma suffix_word_bytes :
  forallb (fun c => negb (is_sep c) && negb (beq c ts_quote) && negb (beq c rbrace)) ts_regex_suffix = true.
Proof. reflexivity. Qed.

Lemma suffix_not_alnum : forallb is_alnum ts_regex_suffix = false.
Proof. reflexivity. Qed.

Lemma suffix_nonempty : is_nil ts_regex_suffix = false.
Proof. reflexivity. Qed.

Lemma sep_is_not_quote : forall c, is_sep c = true -> beq c ts_quote = false.
Proof.
  intros c H. destruct (beq c ts_quote) eqn:E; [|reflexivity].
  apply beq_true in E. subst. rewrite quote_not_sep in H. discriminate.
Qed.

(* alphanumeric bytes are ordinary for the tokenizer and for getShellName *)
Lemma alnum_ordinary : forall c, is_alnum c = true ->
  is_sep c = false /\ beq c ts_quote = false /\ beq c dollar = false /\
  beq c lbrace = false /\ beq c rbrace = false.
Proof. intros c; destruct c; vm_compute; intros H; try discriminate H; repeat split. Qed.

(* ------------------------------------------------------------------ os.Expand *)

Lemma expand_go_nil : forall f w, expand_go f [] w = [].
Proof. intros f [|w]; reflexivity. Qed.

Lemma expand_go_skip : forall f s w, expand_go f s w = expand_go f (skipn w s) 0.
Proof.
  intros f s. induction s as [|c r IH]; intros w.
  - rewrite skipn_nil. rewrite !expand_go_nil. reflexivity.
  - destruct w as [|k]; [reflexivity|]. simpl skipn. rewrite <- IH. reflexivity.
Qed.

Definition no_dollar (s : bytes) : Prop := forallb (fun c => negb (beq c dollar)) s = true.

Lemma expand_go_cons_plain : forall f c r,
  beq c dollar = false -> expand_go f (c :: r) 0 = c :: expand_go f r 0.
Proof.
  intros f c r H. destruct r as [|c' r']; [reflexivity|].
  change (expand_go f (c :: c' :: r') 0)
    with (if beq c dollar then
            let '(name, w) := get_shell_name c' r' in
            (match name, w with [], O => [c] | [], S _ => [] | _, _ => f name end)
              ++ expand_go f (c' :: r') w
          else c :: expand_go f (c' :: r') 0).
  rewrite H. reflexivity.
Qed.

Lemma expand_go_plain_prefix : forall f pre rest,
  no_dollar pre -> expand_go f (pre ++ rest) 0 = pre ++ expand_go f rest 0.
Proof.
  intros f pre rest. induction pre as [|c pre IH]; intros H; [reflexivity|].
  unfold no_dollar in H. simpl in H. apply andb_true_iff in H. destruct H as [Hc Hp].
  apply negb_true_iff in Hc.
  change ((c :: pre) ++ rest) with (c :: (pre ++ rest)).
  rewrite (expand_go_cons_plain f c (pre ++ rest) Hc).
  change ((c :: pre) ++ expand_go f rest 0) with (c :: (pre ++ expand_go f rest 0)).
  f_equal. apply IH. exact Hp.
Qed.

Lemma expand_go_plain : forall f s, no_dollar s -> expand_go f s 0 = s.
Proof.
  intros f s H. rewrite <- (app_nil_r s) at 1. rewrite expand_go_plain_prefix by exact H.
  rewrite expand_go_nil. apply app_nil_r.
Qed.

Lemma os_expand_nil : forall f, os_expand f [] = [].
Proof. reflexivity. Qed.

Lemma take_alnum_app : forall k rest,
  forallb is_alnum k = true ->
  match rest with [] => True | c :: _ => is_alnum c = false end ->
  take_alnum (k ++ rest) = k.
Proof.
  intros k rest. induction k as [|c k IH]; intros Hk Hr.
  - simpl. destruct rest as [|c r]; [reflexivity|]. simpl. rewrite Hr. reflexivity.
  - simpl in Hk. apply andb_true_iff in Hk. destruct Hk as [Hc Hk].
    simpl. rewrite Hc. f_equal. apply IH; assumption.
Qed.

Lemma skipn_length_app : forall (k rest : bytes), skipn (length k) (k ++ rest) = rest.
Proof. intros k rest. induction k; simpl; auto. Qed.

Lemma firstn_length_app : forall (k rest : bytes), firstn (length k) (k ++ rest) = k.
Proof. intros k rest. induction k; simpl; [reflexivity|]. f_equal. assumption. Qed.

(* a valid $NAME: non-empty, alphanumeric, not starting with a one-character special name *)
Definition valid_name (k : bytes) : Prop :=
  k <> [] /\ forallb is_alnum k = true /\
  match k with c :: _ => is_shell_special c = false | [] => True end.

Definition no_alnum_head (post : bytes) : Prop :=
  match post with [] => True | c :: _ => is_alnum c = false end.

(* $k followed by the end or by a byte that cannot continue a name *)
Lemma expand_go_var : forall f k rest,
  valid_name k -> no_alnum_head rest ->
  expand_go f (dollar :: k ++ rest) 0 = f k ++ expand_go f rest 0.
Proof.
  intros f k rest [Hne [Hal Hsp]] Hr.
  destruct k as [|c k]; [contradiction Hne; reflexivity|].
  assert (Hc : is_alnum c = true) by (simpl in Hal; apply andb_true_iff in Hal; tauto).
  destruct (alnum_ordinary c Hc) as [_ [_ [_ [Hlb _]]]].
  change (expand_go f (dollar :: (c :: k) ++ rest) 0)
    with (if beq dollar dollar then
            let '(name, w) := get_shell_name c (k ++ rest) in
            (match name, w with [], O => [dollar] | [], S _ => [] | _, _ => f name end)
              ++ expand_go f ((c :: k) ++ rest) w
          else dollar :: expand_go f ((c :: k) ++ rest) 0).
  rewrite beq_refl. unfold get_shell_name. rewrite Hlb, Hsp.
  change (c :: k ++ rest) with ((c :: k) ++ rest).
  rewrite (take_alnum_app (c :: k) rest Hal Hr).
  cbv zeta. cbn iota beta.
  rewrite expand_go_skip. rewrite skipn_length_app. reflexivity.
Qed.

(* the name inside ${...}: non-empty and free of the closing brace *)
Definition brace_ok (k : bytes) : Prop := k <> [] /\ index_byte rbrace k = None.

Lemma brace_name_found : forall k rest,
  brace_ok k -> brace_name (k ++ rbrace :: rest) = (k, length k + 2).
Proof.
  intros k rest [Hne Hnb]. unfold brace_name.
  rewrite (index_byte_app_notin rbrace k rest Hnb).
  destruct k as [|c k]; [contradiction Hne; reflexivity|].
  cbn [length]. rewrite <- (firstn_length_app (c :: k) (rbrace :: rest)) at 2.
  reflexivity.
Qed.

Lemma get_shell_name_brace : forall k rest,
  brace_ok k -> get_shell_name lbrace (k ++ rbrace :: rest) = (k, length k + 2).
Proof.
  intros k rest Hk. unfold get_shell_name. rewrite beq_refl.
  destruct Hk as [Hne Hnb]. destruct k as [|c1 k]; [contradiction Hne; reflexivity|].
  destruct k as [|c2 k].
  - (* one-character name: both routes agree *)
    simpl app. cbv iota. rewrite beq_refl.
    destruct (is_shell_special c1); simpl andb; cbv iota.
    + reflexivity.
    + exact (brace_name_found [c1] rest (conj Hne Hnb)).
  - simpl app. cbv iota.
    assert (Hc2 : beq c2 rbrace = false).
    { simpl in Hnb. destruct (beq c1 rbrace); [discriminate|].
      destruct (beq c2 rbrace); [discriminate|reflexivity]. }
    rewrite Hc2, andb_false_r.
    exact (brace_name_found (c1 :: c2 :: k) rest (conj Hne Hnb)).
Qed.

Lemma expand_go_brace : forall f k rest,
  brace_ok k ->
  expand_go f (dollar :: lbrace :: k ++ rbrace :: rest) 0 = f k ++ expand_go f rest 0.
Proof.
  intros f k rest Hk.
  change (expand_go f (dollar :: lbrace :: k ++ rbrace :: rest) 0)
    with (if beq dollar dollar then
            let '(name, w) := get_shell_name lbrace (k ++ rbrace :: rest) in
            (match name, w with [], O => [dollar] | [], S _ => [] | _, _ => f name end)
              ++ expand_go f (lbrace :: k ++ rbrace :: rest) w
          else dollar :: expand_go f (lbrace :: k ++ rbrace :: rest) 0).
  rewrite beq_refl. rewrite (get_shell_name_brace k rest Hk).
  destruct Hk as [Hne Hnb]. destruct k as [|c k]; [contradiction Hne; reflexivity|].
  cbv zeta. cbn iota beta.
  rewrite expand_go_skip.
  replace (length (c :: k) + 2) with (S (length (c :: k ++ [rbrace]))).
  2:{ cbn [length]. rewrite app_length. simpl. lia. }
  cbn [skipn].
  replace ((c :: k) ++ rbrace :: rest) with ((c :: k ++ [rbrace]) ++ rest).
  2:{ simpl. rewrite <- app_assoc. reflexivity. }
  rewrite skipn_length_app. reflexivity.
Qed.

(* ------------------------------------------------------------------ the tokenizer, one step at a time *)

Lemma parse_go_cons : forall st c r args arg chunk quoted,
  parse_go st (c :: r) args arg chunk quoted =
    if negb quoted && is_sep c then
      if is_comment c then Some (flush_arg st args arg chunk)
      else parse_go st r (flush_arg st args arg chunk) [] None false
    else if beq c ts_quote then
      if negb quoted then parse_go st r args (add_chunk st arg chunk) (Some []) true
      else
        match r with
        | c2 :: r2 =>
            if beq c2 ts_quote_next
            then parse_go st r2 args (arg ++ chunk_bytes chunk) (Some [c2]) true
            else parse_go st r args (arg ++ chunk_bytes chunk) (Some []) false
        | [] => parse_go st r args (arg ++ chunk_bytes chunk) (Some []) false
        end
    else parse_go st r args arg (Some (chunk_bytes chunk ++ [c])) quoted.
Proof. reflexivity. Qed.


Lemma word_byte_inv : forall c, word_byte c = true -> is_sep c = false /\ beq c ts_quote = false.
Proof.
  intros c H. unfold word_byte in H. apply andb_true_iff in H. destruct H as [H1 H2].
  apply negb_true_iff in H1. apply negb_true_iff in H2. auto.
Qed.

Lemma plain_byte_inv : forall c, plain_byte c = true -> word_byte c = true /\ beq c dollar = false.
Proof.
  intros c H. unfold plain_byte in H. apply andb_true_iff in H. destruct H as [H1 H2].
  apply negb_true_iff in H2. auto.
Qed.

Lemma blank_byte_inv : forall c, blank_byte c = true -> is_sep c = true /\ is_comment c = false.
Proof.
  intros c H. unfold blank_byte in H. apply andb_true_iff in H. destruct H as [H1 H2].
  apply negb_true_iff in H2. auto.
Qed.

Lemma plain_word_bytes : forall w, forallb plain_byte w = true -> forallb word_byte w = true /\ no_dollar w.
Proof.
  induction w as [|c w IH]; intros H; [split; reflexivity|].
  simpl in H. apply andb_true_iff in H. destruct H as [Hc Hw].
  destruct (plain_byte_inv c Hc) as [H1 H2]. destruct (IH Hw) as [H3 H4].
  split; [simpl; rewrite H1, H3; reflexivity|].
  unfold no_dollar in *. simpl. rewrite H2, H4. reflexivity.
Qed.

Lemma step_word : forall st c r args arg chunk quoted,
  word_byte c = true ->
  parse_go st (c :: r) args arg chunk quoted
  = parse_go st r args arg (Some (chunk_bytes chunk ++ [c])) quoted.
Proof.
  intros st c r args arg chunk quoted H. destruct (word_byte_inv c H) as [H1 H2].
  rewrite parse_go_cons, H1, H2, andb_false_r. reflexivity.
Qed.

Lemma step_in_quotes : forall st c r args arg chunk,
  beq c ts_quote = false ->
  parse_go st (c :: r) args arg chunk true
  = parse_go st r args arg (Some (chunk_bytes chunk ++ [c])) true.
Proof. intros st c r args arg chunk H. rewrite parse_go_cons, H. reflexivity. Qed.

Lemma step_blank : forall st c r args arg chunk,
  blank_byte c = true ->
  parse_go st (c :: r) args arg chunk false
  = parse_go st r (flush_arg st args arg chunk) [] None false.
Proof.
  intros st c r args arg chunk H. destruct (blank_byte_inv c H) as [H1 H2].
  rewrite parse_go_cons, H1, H2. reflexivity.
Qed.

Lemma step_comment : forall st c r args arg chunk,
  is_comment c = true ->
  parse_go st (c :: r) args arg chunk false = Some (flush_arg st args arg chunk).
Proof.
  intros st c r args arg chunk H.
  rewrite parse_go_cons, (comment_is_sep c H), H. reflexivity.
Qed.

Lemma step_open : forall st r args arg chunk,
  parse_go st (ts_quote :: r) args arg chunk false
  = parse_go st r args (add_chunk st arg chunk) (Some []) true.
Proof.
  intros. rewrite parse_go_cons, quote_not_sep, beq_refl. reflexivity.
Qed.

Lemma step_doubled : forall st r args arg chunk,
  parse_go st (ts_quote :: ts_quote :: r) args arg chunk true
  = parse_go st r args (arg ++ chunk_bytes chunk) (Some [ts_quote]) true.
Proof.
  intros. rewrite parse_go_cons, beq_refl. simpl negb. simpl andb. cbv iota.
  rewrite quote_next_is_quote, beq_refl. reflexivity.
Qed.

(* what may follow a closing quote: the end of the line or any byte but a quote *)
Definition not_quote_head (rest : bytes) : Prop :=
  match rest with [] => True | c :: _ => beq c ts_quote = false end.

Lemma step_close : forall st rest args arg chunk,
  not_quote_head rest ->
  parse_go st (ts_quote :: rest) args arg chunk true
  = parse_go st rest args (arg ++ chunk_bytes chunk) (Some []) false.
Proof.
  intros st rest args arg chunk H. rewrite parse_go_cons, beq_refl. simpl negb. simpl andb. cbv iota.
  destruct rest as [|c r]; [reflexivity|].
  simpl in H. rewrite quote_next_is_quote, H. reflexivity.
Qed.

Lemma expand_empty : forall st, expand st [] = [].
Proof. reflexivity. Qed.

(* ------------------------------------------------------------------ parse_quote_words *)

Lemma dbl_quotes_cons : forall c w,
  dbl_quotes (c :: w) = (if beq c ts_quote then [ts_quote; ts_quote] else [c]) ++ dbl_quotes w.
Proof. reflexivity. Qed.

Lemma quoted_body : forall st w rest args arg ch,
  not_quote_head rest ->
  parse_go st (dbl_quotes w ++ ts_quote :: rest) args arg (Some ch) true
  = parse_go st rest args (arg ++ ch ++ w) (Some []) false.
Proof.
  intros st w. induction w as [|c w IH]; intros rest args arg ch Hr.
  - simpl app. rewrite (step_close st rest args arg (Some ch) Hr). simpl chunk_bytes.
    rewrite app_nil_r. reflexivity.
  - rewrite dbl_quotes_cons.
    destruct (beq c ts_quote) eqn:E.
    + apply beq_true in E. subst c.
      change (([ts_quote; ts_quote] ++ dbl_quotes w) ++ ts_quote :: rest)
        with (ts_quote :: ts_quote :: (dbl_quotes w ++ ts_quote :: rest)).
      rewrite step_doubled. simpl chunk_bytes. rewrite IH by exact Hr.
      rewrite <- !app_assoc. reflexivity.
    + change (([c] ++ dbl_quotes w) ++ ts_quote :: rest)
        with (c :: (dbl_quotes w ++ ts_quote :: rest)).
      rewrite (step_in_quotes st c _ args arg (Some ch) E).
      simpl chunk_bytes. rewrite IH by exact Hr.
      rewrite <- !app_assoc. reflexivity.
Qed.

Lemma quoted_word : forall st w rest args,
  not_quote_head rest ->
  parse_go st (sq w ++ rest) args [] None false
  = parse_go st rest args w (Some []) false.
Proof.
  intros st w rest args Hr. unfold sq.
  change ((ts_quote :: dbl_quotes w ++ [ts_quote]) ++ rest)
    with (ts_quote :: ((dbl_quotes w ++ [ts_quote]) ++ rest)).
  rewrite <- app_assoc. simpl app at 2.
  rewrite step_open. simpl add_chunk.
  rewrite (quoted_body st w rest args [] [] Hr). reflexivity.
Qed.

Lemma sp_blank_byte : blank_byte SP = true.
Proof. reflexivity. Qed.

Lemma sp_not_quote : beq SP ts_quote = false.
Proof. reflexivity. Qed.

Lemma quote_words_go : forall st ws args,
  parse_go st (join_sp (map sq ws)) args [] None false = Some (args ++ ws).
Proof.
  intros st ws. induction ws as [|w ws IH]; intros args.
  - simpl. rewrite app_nil_r. reflexivity.
  - destruct ws as [|w2 ws].
    + simpl map. simpl join_sp. rewrite <- (app_nil_r (sq w)).
      rewrite (quoted_word st w [] args I). simpl. rewrite app_nil_r. reflexivity.
    + change (join_sp (map sq (w :: w2 :: ws))) with (sq w ++ SP :: join_sp (map sq (w2 :: ws))).
      rewrite (quoted_word st w (SP :: join_sp (map sq (w2 :: ws))) args sp_not_quote).
      rewrite (step_blank st SP _ args w (Some []) sp_blank_byte).
      simpl flush_arg. rewrite expand_empty, app_nil_r.
      rewrite IH. rewrite <- app_assoc. reflexivity.
Qed.

(* any word survives quoting; nothing inside quotes is expanded, split or taken as a comment *)
Theorem parse_quote_words : forall st ws,
  ts_parse st (join_sp (map sq ws)) = Some ws.
Proof. intros st ws. unfold ts_parse. rewrite quote_words_go. reflexivity. Qed.

(* words without a newline give a line without a newline: the quoted list is one script line *)
Lemma quote_nl_facts : beq ts_quote NL = false /\ beq SP NL = false.
Proof. split; reflexivity. Qed.

Lemma dbl_quotes_in : forall b w, In b (dbl_quotes w) -> In b w.
Proof.
  intros b w. induction w as [|c w IH]; simpl; [auto|].
  destruct (beq c ts_quote) eqn:E.
  - apply beq_true in E. subst c. simpl. intros [H|[H|H]]; auto.
  - simpl. intros [H|H]; auto.
Qed.

Theorem quoted_line_single : forall ws,
  Forall (fun w => ~ In NL w) ws -> ~ In NL (join_sp (map sq ws)).
Proof.
  destruct quote_nl_facts as [Hq Hs]. apply beq_false in Hq. apply beq_false in Hs.
  intros ws H. induction H as [|w ws Hw Hws IH]; [intros []|].
  assert (Hsq : ~ In NL (sq w)).
  { unfold sq. intros [H1|H1]; [exact (Hq H1)|].
    apply in_app_or in H1. destruct H1 as [H1|[H1|[]]]; [|exact (Hq H1)].
    apply Hw. apply dbl_quotes_in. exact H1. }
  destruct ws as [|w2 ws]; [simpl; exact Hsq|].
  change (join_sp (map sq (w :: w2 :: ws))) with (sq w ++ SP :: join_sp (map sq (w2 :: ws))).
  intros H1. apply in_app_or in H1. destruct H1 as [H1|[H1|H1]]; auto.
Qed.

(* ------------------------------------------------------------------ parse_plain_split *)

Lemma word_run : forall st w rest args arg ch quoted,
  forallb word_byte w = true ->
  parse_go st (w ++ rest) args arg (Some ch) quoted
  = parse_go st rest args arg (Some (ch ++ w)) quoted.
Proof.
  intros st w. induction w as [|c w IH]; intros rest args arg ch quoted H.
  - simpl. rewrite app_nil_r. reflexivity.
  - simpl in H. apply andb_true_iff in H. destruct H as [Hc Hw].
    change ((c :: w) ++ rest) with (c :: (w ++ rest)).
    rewrite (step_word st c (w ++ rest) args arg (Some ch) quoted Hc). simpl chunk_bytes.
    rewrite IH by exact Hw. rewrite <- app_assoc. reflexivity.
Qed.

Lemma word_start : forall st w rest args arg,
  w <> [] -> forallb word_byte w = true ->
  parse_go st (w ++ rest) args arg None false
  = parse_go st rest args arg (Some w) false.
Proof.
  intros st w rest args arg Hne H. destruct w as [|c w]; [contradiction Hne; reflexivity|].
  simpl in H. apply andb_true_iff in H. destruct H as [Hc Hw].
  change ((c :: w) ++ rest) with (c :: (w ++ rest)).
  rewrite (step_word st c (w ++ rest) args arg None false Hc). simpl chunk_bytes.
  rewrite word_run by exact Hw. reflexivity.
Qed.

Lemma blank_skip : forall st s rest args,
  forallb blank_byte s = true ->
  parse_go st (s ++ rest) args [] None false = parse_go st rest args [] None false.
Proof.
  intros st s. induction s as [|b s IH]; intros rest args H; [reflexivity|].
  simpl in H. apply andb_true_iff in H. destruct H as [Hb Hs].
  change ((b :: s) ++ rest) with (b :: (s ++ rest)).
  rewrite (step_blank st b (s ++ rest) args [] None Hb). simpl flush_arg.
  apply IH. exact Hs.
Qed.

Lemma expand_plain : forall st w, no_dollar w -> expand st w = w.
Proof. intros st w H. unfold expand, os_expand. apply expand_go_plain. exact H. Qed.

Definition plain_word (w : bytes) : Prop := w <> [] /\ forallb plain_byte w = true.
Definition blank_run (s : bytes) : Prop := forallb blank_byte s = true.


Lemma blank_then_end : forall st t args arg ch,
  blank_run t ->
  parse_go st t args arg (Some ch) false = Some (args ++ [arg ++ expand st ch]).
Proof.
  intros st t args arg ch Ht. destruct t as [|b t]; [reflexivity|].
  unfold blank_run in Ht. simpl in Ht. apply andb_true_iff in Ht. destruct Ht as [Hb Ht].
  rewrite (step_blank st b t args arg (Some ch) Hb). simpl flush_arg.
  rewrite <- (app_nil_r t). rewrite blank_skip by exact Ht. reflexivity.
Qed.

Lemma plain_split_go : forall st rest trail args w,
  Forall (fun p => fst p <> [] /\ blank_run (fst p) /\ plain_word (snd p)) rest ->
  blank_run trail ->
  forallb plain_byte w = true ->
  parse_go st (join_runs rest ++ trail) args [] (Some w) false
  = Some (args ++ w :: map snd rest).
Proof.
  intros st rest trail. induction rest as [|[s w'] rest IH]; intros args w Hall Ht Hw.
  - simpl. rewrite (blank_then_end st trail args [] w Ht).
    rewrite (expand_plain st w (proj2 (plain_word_bytes w Hw))). reflexivity.
  - inversion Hall as [|p l Hp Hrest]; subst. simpl in Hp. destruct Hp as [Hsne [Hs [Hwne Hw']]].
    destruct s as [|b s]; [contradiction Hsne; reflexivity|].
    unfold blank_run in Hs. simpl in Hs. apply andb_true_iff in Hs. destruct Hs as [Hb Hs].
    replace (join_runs ((b :: s, w') :: rest) ++ trail) with (b :: (s ++ w' ++ join_runs rest ++ trail)).
    2:{ simpl. rewrite <- !app_assoc. reflexivity. }
    rewrite (step_blank st b _ args [] (Some w) Hb). simpl flush_arg.
    rewrite (expand_plain st w (proj2 (plain_word_bytes w Hw))).
    rewrite blank_skip by exact Hs.
    rewrite (word_start st w' (join_runs rest ++ trail) (args ++ [w]) [] Hwne (proj1 (plain_word_bytes w' Hw'))).
    rewrite (IH (args ++ [w]) w' Hrest Ht Hw'). rewrite <- app_assoc. reflexivity.
Qed.

(* words of ordinary bytes separated by arbitrary non-empty runs of blanks (every separator
   of the tokenizer that is not a comment character: space, tab, CR), with optional blanks at both
   ends, parse to themselves *)
Theorem parse_plain_split : forall st lead w0 rest trail,
  blank_run lead -> plain_word w0 ->
  Forall (fun p => fst p <> [] /\ blank_run (fst p) /\ plain_word (snd p)) rest ->
  blank_run trail ->
  ts_parse st (lead ++ w0 ++ join_runs rest ++ trail) = Some (w0 :: map snd rest).
Proof.
  intros st lead w0 rest trail Hl [Hne Hw0] Hrest Ht. unfold ts_parse.
  rewrite blank_skip by exact Hl.
  rewrite (word_start st w0 (join_runs rest ++ trail) [] [] Hne (proj1 (plain_word_bytes w0 Hw0))).
  exact (plain_split_go st rest trail [] w0 Hrest Ht Hw0).
Qed.

Theorem parse_blank_line : forall st s, blank_run s -> ts_parse st s = Some [].
Proof.
  intros st s H. unfold ts_parse. rewrite <- (app_nil_r s). rewrite blank_skip by exact H. reflexivity.
Qed.

(* ------------------------------------------------------------------ parse_comment *)

Lemma bytes_strong_ind : forall (P : bytes -> Prop),
  (forall l, (forall l', length l' < length l -> P l') -> P l) -> forall l, P l.
Proof.
  intros P H l. remember (length l) as n eqn:E. revert l E.
  induction n as [n IH] using lt_wf_ind. intros l E. apply H. intros l' Hl'.
  apply (IH (length l')); [subst; exact Hl'|reflexivity].
Qed.

Lemma comment_go : forall st h r l args arg chunk quoted,
  is_comment h = true ->
  in_quote_after l quoted = false ->
  parse_go st (l ++ h :: r) args arg chunk quoted = parse_go st l args arg chunk quoted.
Proof.
  intros st h r l. induction l as [l IH] using bytes_strong_ind.
  intros args arg chunk quoted Hh Hq.
  assert (Hhq : beq h ts_quote = false) by (apply sep_is_not_quote; apply comment_is_sep; exact Hh).
  destruct l as [|c l].
  - simpl in Hq. subst quoted. simpl app. rewrite (step_comment st h r args arg chunk Hh). reflexivity.
  - change ((c :: l) ++ h :: r) with (c :: (l ++ h :: r)).
    rewrite !parse_go_cons. simpl in Hq.
    destruct (negb quoted && is_sep c) eqn:E1.
    + apply andb_true_iff in E1. destruct E1 as [E1 E2]. apply negb_true_iff in E1. subst quoted.
      rewrite (sep_is_not_quote c E2) in Hq.
      destruct (is_comment c); [reflexivity|].
      apply IH; [simpl; lia|exact Hh|exact Hq].
    + destruct (beq c ts_quote) eqn:E2.
      * destruct quoted; simpl negb; cbv iota.
        -- destruct l as [|c2 l2].
           ++ simpl app. cbv iota. rewrite quote_next_is_quote, Hhq.
              simpl in Hq.
              rewrite (step_comment st h r args (arg ++ chunk_bytes chunk) (Some []) Hh). reflexivity.
           ++ change ((c2 :: l2) ++ h :: r) with (c2 :: (l2 ++ h :: r)). cbv iota.
              rewrite quote_next_is_quote.
              destruct (beq c2 ts_quote) eqn:E3.
              ** apply IH; [simpl; lia|exact Hh|]. simpl in Hq. rewrite E3 in Hq. exact Hq.
              ** change (c2 :: (l2 ++ h :: r)) with ((c2 :: l2) ++ h :: r).
                 apply IH; [simpl; lia|exact Hh|exact Hq].
        -- apply IH; [simpl; lia|exact Hh|exact Hq].
      * apply IH; [simpl; lia|exact Hh|exact Hq].
Qed.

(* an unquoted comment character — one that follows an even number of quote characters — ends the
   line wherever it stands (also glued to a word); everything after it is ignored *)
Theorem parse_comment : forall st l h r,
  is_comment h = true -> in_quote_after l false = false ->
  ts_parse st (l ++ h :: r) = ts_parse st l.
Proof. intros st l h r Hh Hq. unfold ts_parse. apply comment_go; assumption. Qed.

(* ------------------------------------------------------------------ parse_expand_once *)

Definition plain_chunk (w : bytes) : Prop := forallb plain_byte w = true.

Lemma alnum_word_bytes : forall k, forallb is_alnum k = true -> forallb word_byte k = true.
Proof.
  induction k as [|c k IH]; intros H; [reflexivity|].
  simpl in H. apply andb_true_iff in H. destruct H as [Hc Hk].
  destruct (alnum_ordinary c Hc) as [H1 [H2 _]].
  simpl. unfold word_byte at 1. rewrite H1, H2. simpl. apply IH. exact Hk.
Qed.

Lemma forallb_app_intro : forall (p : byte -> bool) a b,
  forallb p a = true -> forallb p b = true -> forallb p (a ++ b) = true.
Proof. intros p a b Ha Hb. rewrite forallb_app, Ha, Hb. reflexivity. Qed.

Lemma dollar_word : word_byte dollar = true.
Proof. reflexivity. Qed.
Lemma lbrace_word : word_byte lbrace = true.
Proof. reflexivity. Qed.
Lemma rbrace_word : word_byte rbrace = true.
Proof. reflexivity. Qed.

(* a command word followed by one argument made of word bytes: the argument is the expansion
   of the whole chunk *)
Lemma one_chunk_line : forall st cmd chunk,
  plain_word cmd -> chunk <> [] -> forallb word_byte chunk = true ->
  ts_parse st (cmd ++ SP :: chunk) = Some [cmd; expand st chunk].
Proof.
  intros st cmd chunk [Hne Hcmd] Hcne Hch. unfold ts_parse.
  rewrite (word_start st cmd (SP :: chunk) [] [] Hne (proj1 (plain_word_bytes cmd Hcmd))).
  rewrite (step_blank st SP chunk [] [] (Some cmd) sp_blank_byte). simpl flush_arg.
  rewrite (expand_plain st cmd (proj2 (plain_word_bytes cmd Hcmd))).
  rewrite <- (app_nil_r chunk) at 1.
  rewrite (word_start st chunk [] [cmd] [] Hcne Hch). reflexivity.
Qed.

Lemma has_prefix_split : forall p d, has_prefix p d = true -> exists d', d = p ++ d'.
Proof.
  induction p as [|x p IH]; intros d H; [exists d; reflexivity|].
  destruct d as [|y d]; simpl in H; [discriminate|].
  apply andb_true_iff in H. destruct H as [H1 H2]. apply beq_true in H1. subst y.
  destruct (IH d H2) as [d' Hd]. exists d'. simpl. f_equal. exact Hd.
Qed.

Lemma has_prefix_app : forall p d, has_prefix p (p ++ d) = true.
Proof. induction p as [|x p IH]; intros d; simpl; [reflexivity|]. rewrite beq_refl. apply IH. Qed.

(* an alphanumeric name does not end in the @R suffix *)
Lemma alnum_no_suffix : forall k, forallb is_alnum k = true -> strip_suffix ts_regex_suffix k = None.
Proof.
  intros k Hk. unfold strip_suffix.
  destruct (has_suffix ts_regex_suffix k) eqn:E; [|reflexivity].
  exfalso. unfold has_suffix in E. destruct (has_prefix_split _ _ E) as [d' Hd].
  assert (Hk' : k = rev d' ++ ts_regex_suffix).
  { rewrite <- (rev_involutive k), Hd, rev_app_distr, rev_involutive. reflexivity. }
  rewrite Hk' in Hk. rewrite forallb_app in Hk. apply andb_true_iff in Hk. destruct Hk as [_ Hk].
  rewrite suffix_not_alnum in Hk. discriminate.
Qed.

Lemma strip_suffix_app : forall k, strip_suffix ts_regex_suffix (k ++ ts_regex_suffix) = Some k.
Proof.
  intros k. unfold strip_suffix, has_suffix. rewrite rev_app_distr, has_prefix_app, suffix_nonempty.
  simpl andb. cbv iota. rewrite app_length, Nat.add_sub.
  rewrite firstn_length_app. reflexivity.
Qed.

Lemma expand_key_plain : forall st k,
  strip_suffix ts_regex_suffix k = None -> expand_key st k = getenv st k.
Proof. intros st k H. unfold expand_key. rewrite H. reflexivity. Qed.

Lemma expand_key_regex : forall st k,
  expand_key st (k ++ ts_regex_suffix) = quote_meta (getenv st k).
Proof. intros st k. unfold expand_key. rewrite strip_suffix_app. reflexivity. Qed.

Lemma plain_no_alnum_head_nil : no_alnum_head [].
Proof. exact I. Qed.

(* $k: the value is substituted once, whatever bytes it holds *)
Theorem parse_expand_once : forall st cmd pre k post v,
  plain_word cmd -> plain_chunk pre -> plain_chunk post -> no_alnum_head post ->
  valid_name k -> getenv st k = v ->
  ts_parse st (cmd ++ SP :: pre ++ dollar :: k ++ post) = Some [cmd; pre ++ v ++ post].
Proof.
  intros st cmd pre k post v Hcmd Hpre Hpost Hhead Hk Hv.
  destruct (plain_word_bytes pre Hpre) as [Hpw Hpd].
  destruct (plain_word_bytes post Hpost) as [Hqw Hqd].
  destruct Hk as [Hkne [Hkal Hksp]].
  rewrite (one_chunk_line st cmd (pre ++ dollar :: k ++ post) Hcmd).
  - unfold expand, os_expand. rewrite (expand_go_plain_prefix _ pre _ Hpd).
    rewrite (expand_go_var _ k post (conj Hkne (conj Hkal Hksp)) Hhead).
    rewrite (expand_go_plain _ post Hqd).
    rewrite (expand_key_plain st k (alnum_no_suffix k Hkal)), Hv. reflexivity.
  - destruct pre; discriminate.
  - apply forallb_app_intro; [exact Hpw|]. cbn [forallb]. rewrite dollar_word. cbn [andb].
    apply forallb_app_intro; [apply alnum_word_bytes; exact Hkal|exact Hqw].
Qed.

(* the name between braces: non-empty, made of word bytes, without a closing brace *)
Definition brace_word (k : bytes) : Prop := brace_ok k /\ forallb word_byte k = true.

Lemma brace_chunk_word : forall pre k post,
  forallb word_byte pre = true -> forallb word_byte k = true -> forallb word_byte post = true ->
  forallb word_byte (pre ++ dollar :: lbrace :: k ++ rbrace :: post) = true.
Proof.
  intros pre k post H1 H2 H3. apply forallb_app_intro; [exact H1|].
  cbn [forallb]. rewrite dollar_word, lbrace_word. cbn [andb].
  apply forallb_app_intro; [exact H2|]. cbn [forallb]. rewrite rbrace_word. exact H3.
Qed.

(* ${k}: the same, also glued to literal text on both sides *)
Theorem parse_expand_once_brace : forall st cmd pre k post v,
  plain_word cmd -> plain_chunk pre -> plain_chunk post ->
  brace_word k -> strip_suffix ts_regex_suffix k = None -> getenv st k = v ->
  ts_parse st (cmd ++ SP :: pre ++ dollar :: lbrace :: k ++ rbrace :: post)
  = Some [cmd; pre ++ v ++ post].
Proof.
  intros st cmd pre k post v Hcmd Hpre Hpost [Hbk Hkw] Hns Hv.
  destruct (plain_word_bytes pre Hpre) as [Hpw Hpd].
  destruct (plain_word_bytes post Hpost) as [Hqw Hqd].
  rewrite (one_chunk_line st cmd (pre ++ dollar :: lbrace :: k ++ rbrace :: post) Hcmd).
  - unfold expand, os_expand. rewrite (expand_go_plain_prefix _ pre _ Hpd).
    rewrite (expand_go_brace _ k post Hbk).
    rewrite (expand_go_plain _ post Hqd).
    rewrite (expand_key_plain st k Hns), Hv. reflexivity.
  - destruct pre; discriminate.
  - apply brace_chunk_word; assumption.
Qed.

Lemma suffix_facts : forallb word_byte ts_regex_suffix = true /\ index_byte rbrace ts_regex_suffix = None.
Proof. split; reflexivity. Qed.

Lemma index_byte_app_none : forall b a c,
  index_byte b a = None -> index_byte b c = None -> index_byte b (a ++ c) = None.
Proof.
  intros b a c Ha Hc. apply index_byte_none_notin. intros H. apply in_app_or in H.
  destruct H as [H|H]; [apply index_byte_none_notin in Ha|apply index_byte_none_notin in Hc]; contradiction.
Qed.

(* ${k@R}: the value goes through QuoteMeta and is substituted once *)
Theorem parse_expand_regex : forall st cmd pre k post v,
  plain_word cmd -> plain_chunk pre -> plain_chunk post ->
  brace_word k -> getenv st k = v ->
  ts_parse st (cmd ++ SP :: pre ++ dollar :: lbrace :: (k ++ ts_regex_suffix) ++ rbrace :: post)
  = Some [cmd; pre ++ quote_meta v ++ post].
Proof.
  intros st cmd pre k post v Hcmd Hpre Hpost [[Hkne Hkb] Hkw] Hv.
  destruct (plain_word_bytes pre Hpre) as [Hpw Hpd].
  destruct (plain_word_bytes post Hpost) as [Hqw Hqd].
  destruct suffix_facts as [Hsw Hsb].
  assert (Hbk : brace_ok (k ++ ts_regex_suffix)).
  { split; [destruct k; [contradiction Hkne; reflexivity|discriminate]|].
    apply index_byte_app_none; assumption. }
  rewrite (one_chunk_line st cmd (pre ++ dollar :: lbrace :: (k ++ ts_regex_suffix) ++ rbrace :: post) Hcmd).
  - unfold expand, os_expand. rewrite (expand_go_plain_prefix _ pre _ Hpd).
    rewrite (expand_go_brace _ (k ++ ts_regex_suffix) post Hbk).
    rewrite (expand_go_plain _ post Hqd).
    rewrite expand_key_regex, Hv. reflexivity.
  - destruct pre; discriminate.
  - apply brace_chunk_word; [exact Hpw| |exact Hqw]. apply forallb_app_intro; assumption.
Qed.

(* ------------------------------------------------------------------ examples (non-vacuity) *)

From Coq Require Import String.
Definition bs (s : String.string) : list byte := String.list_byte_of_string s.

(* a state with hostile values *)
Definition ex_state : ts_env :=
  cmd_env [bs "A=x 'y' $B #z"%string ++ [CR]; bs "B=again"%string; bs "a-b=dash dash"%string; bs "R=a.b*c"%string]
          (setup_env [bs "WORK=/w"%string; bs "$=$"%string]).

Example parse_quote_words_ex :
  let ws := [bs "it's"%string; []; bs "#x $A ${B}"%string; bs "a  b"%string ++ [TAB; CR]; bs "''"%string] in
  join_sp (map sq ws) = bs "'it''s' '' '#x $A ${B}' 'a  b"%string ++ [TAB; CR] ++ bs "' ''''''"%string
  /\ ts_parse ex_state (join_sp (map sq ws)) = Some ws.
Proof. vm_compute. split; reflexivity. Qed.

Example parse_plain_split_ex :
  let lead := [SP] in
  let w0 := bs "args"%string in
  let rest := [([TAB; SP], bs "a=b"%string); ([TAB], bs "x.y"%string); ([SP; SP; SP], bs "{z}"%string)] in
  let trail := [SP; TAB] in
  blank_run lead /\ plain_word w0 /\
  Forall (fun p => fst p <> [] /\ blank_run (fst p) /\ plain_word (snd p)) rest /\ blank_run trail /\
  ts_parse ex_state (lead ++ w0 ++ join_runs rest ++ trail) = Some (w0 :: map snd rest).
Proof.
  cbv zeta. split; [reflexivity|]. split; [split; [discriminate|reflexivity]|].
  split; [|split; [reflexivity|vm_compute; reflexivity]].
  repeat constructor; try discriminate; reflexivity.
Qed.

(* the characters the property names: words are split at spaces and tabs, # starts a comment,
   the quote is the single quote, expansion starts at $, the regexp suffix is @R *)
Theorem syntax_characters :
  blank_byte SP = true /\ blank_byte TAB = true /\
  is_comment x23 = true /\ ts_quote = x27 /\ dollar = x24 /\ lbrace = x7b /\ rbrace = x7d /\
  ts_regex_suffix = [x40; x52] /\ ts_env_sep = x3d /\ pwd_key = [x50; x57; x44].
Proof. repeat split. Qed.

Example parse_comment_ex :
  let l := bs "args a 'b#c' d"%string in
  let h := x23 in
  is_comment h = true /\ in_quote_after l false = false /\
  ts_parse ex_state (l ++ h :: bs " rest 'unbalanced"%string) = Some [bs "args"%string; bs "a"%string; bs "b#c"%string; bs "d"%string]
  /\ ts_parse ex_state (bs "args a#glued"%string) = Some [bs "args"%string; bs "a"%string].
Proof. vm_compute. repeat split. Qed.

(* inside quotes (odd number of quotes before it) the same character is ordinary *)
Example quoted_hash_ex :
  in_quote_after (bs "args 'a"%string) false = true /\
  ts_parse ex_state (bs "args 'a#b'"%string) = Some [bs "args"%string; bs "a#b"%string].
Proof. vm_compute. split; reflexivity. Qed.

Example parse_expand_once_ex :
  let v := bs "x 'y' $B #z"%string ++ [CR] in
  valid_name (bs "A"%string) /\ getenv ex_state (bs "A"%string) = v /\
  plain_word (bs "c"%string) /\ plain_chunk (bs "pre-"%string) /\ plain_chunk (bs ".post"%string) /\
  no_alnum_head (bs ".post"%string) /\
  ts_parse ex_state (bs "c $A"%string) = Some [bs "c"%string; v] /\
  ts_parse ex_state (bs "c pre-$A.post"%string) = Some [bs "c"%string; bs "pre-"%string ++ v ++ bs ".post"%string].
Proof.
  cbv zeta. split; [split; [discriminate|split; reflexivity]|].
  split; [reflexivity|]. split; [split; [discriminate|reflexivity]|].
  repeat split.
Qed.

Example parse_expand_once_brace_ex :
  let k := bs "a-b"%string in
  brace_word k /\ strip_suffix ts_regex_suffix k = None /\
  ts_parse ex_state (bs "c x${a-b}y"%string) = Some [bs "c"%string; bs "xdash dashy"%string] /\
  ts_parse ex_state (bs "c ${A}"%string) = Some [bs "c"%string; bs "x 'y' $B #z"%string ++ [CR]].
Proof.
  cbv zeta. split; [split; [split; [discriminate|reflexivity]|reflexivity]|].
  repeat split.
Qed.

Example parse_expand_regex_ex :
  ts_parse ex_state (bs "c ^${R@R}$"%string) = Some [bs "c"%string; bs "^a\.b\*c$"%string].
Proof. reflexivity. Qed.

(* names the $NAME form does not cover: a leading digit is a one-character special name *)
Example digit_name_ex :
  ts_parse (cmd_env [bs "1a=v"%string; bs "1=one"%string] (setup_env [])) (bs "c $1a ${1a}"%string)
  = Some [bs "c"%string; bs "onea"%string; bs "v"%string].
Proof. reflexivity. Qed.

Example unterminated_ex : ts_parse ex_state (bs "args 'abc"%string) = None.
Proof. reflexivity. Qed.

(* C02 — the UTF-8 automaton of TsParse.v accepts exactly what Lib.Bytes.utf8_valid (the model of
   unicode/utf8.Valid shared with the txtar development) accepts. *)
From Coq Require Import List Bool Arith NArith Lia.
From Coq.Strings Require Import Byte.
From GI Require Import Lib.Bytes TsParse.TsParse.
Import ListNotations.
Local Notation bytes := (list byte) (only parsing).

(* the nine classes of a first byte, with the value of every test either definition performs *)
Inductive lead_class (b : byte) : Prop :=
| LcAscii : N.ltb (bN b) 128 = true -> lead_class b
| LcTwo : N.ltb (bN b) 128 = false -> in_range 194 223 b = true -> lead_class b
| LcE0 : N.ltb (bN b) 128 = false -> in_range 194 223 b = false -> in_range 224 239 b = true ->
         N.eqb (bN b) 224 = true -> lead_class b
| LcED : N.ltb (bN b) 128 = false -> in_range 194 223 b = false -> in_range 224 239 b = true ->
         N.eqb (bN b) 224 = false -> N.eqb (bN b) 237 = true -> lead_class b
| LcThree : N.ltb (bN b) 128 = false -> in_range 194 223 b = false -> in_range 224 239 b = true ->
         N.eqb (bN b) 224 = false -> N.eqb (bN b) 237 = false -> in_range 225 239 b = true -> lead_class b
| LcF0 : N.ltb (bN b) 128 = false -> in_range 194 223 b = false -> in_range 224 239 b = false ->
         N.eqb (bN b) 224 = false -> N.eqb (bN b) 237 = false -> in_range 225 239 b = false ->
         in_range 240 244 b = true -> N.eqb (bN b) 240 = true -> lead_class b
| LcF4 : N.ltb (bN b) 128 = false -> in_range 194 223 b = false -> in_range 224 239 b = false ->
         N.eqb (bN b) 224 = false -> N.eqb (bN b) 237 = false -> in_range 225 239 b = false ->
         in_range 240 244 b = true -> N.eqb (bN b) 240 = false -> N.eqb (bN b) 244 = true -> lead_class b
| LcFour : N.ltb (bN b) 128 = false -> in_range 194 223 b = false -> in_range 224 239 b = false ->
         N.eqb (bN b) 224 = false -> N.eqb (bN b) 237 = false -> in_range 225 239 b = false ->
         in_range 240 244 b = true -> N.eqb (bN b) 240 = false -> N.eqb (bN b) 244 = false ->
         in_range 241 243 b = true -> lead_class b
| LcBad : N.ltb (bN b) 128 = false -> in_range 194 223 b = false -> in_range 224 239 b = false ->
         N.eqb (bN b) 224 = false -> N.eqb (bN b) 237 = false -> in_range 225 239 b = false ->
         in_range 240 244 b = false -> N.eqb (bN b) 240 = false -> N.eqb (bN b) 244 = false ->
         in_range 241 243 b = false -> lead_class b.

Lemma lead_classify : forall b, lead_class b.
Proof.
  intros b; destruct b;
    first [ apply LcAscii; reflexivity
          | apply LcTwo; reflexivity
          | apply LcE0; reflexivity
          | apply LcED; reflexivity
          | apply LcThree; reflexivity
          | apply LcF0; reflexivity
          | apply LcF4; reflexivity
          | apply LcFour; reflexivity
          | apply LcBad; reflexivity ].
Qed.

Lemma cont_is_range : forall c, cont c = in_range 128 191 c.
Proof. reflexivity. Qed.

Lemma if_and : forall a b : bool, (if a then b else false) = a && b.
Proof. intros [|] b; reflexivity. Qed.

Lemma utf8_fuel_dfa : forall f d,
  length d <= f -> utf8_valid_fuel f d = utf8_dfa d 0 128 191.
Proof.
  induction f as [|f IH]; intros d Hlen.
  - destruct d as [|b r]; [reflexivity|simpl in Hlen; lia].
  - destruct d as [|b r]; [reflexivity|]. simpl in Hlen.
    cbn [utf8_valid_fuel utf8_dfa]. unfold cont.
    destruct (lead_classify b) as
      [H1|H1 H2|H1 H2 H3 H4|H1 H2 H3 H4 H5|H1 H2 H3 H4 H5 H6|H1 H2 H3 H4 H5 H6 H7 H8
      |H1 H2 H3 H4 H5 H6 H7 H8 H9|H1 H2 H3 H4 H5 H6 H7 H8 H9 H10|H1 H2 H3 H4 H5 H6 H7 H8 H9 H10].
    + rewrite H1. apply IH. lia.
    + rewrite H1, H2. destruct r as [|c1 r']; [reflexivity|]. cbn [utf8_dfa].
      rewrite if_and. f_equal. apply IH. simpl in Hlen. lia.
    + rewrite H1, H2, H3, H4. destruct r as [|c1 [|c2 r']]; cbn [utf8_dfa]; try reflexivity.
      * destruct (in_range 160 191 c1); reflexivity.
      * rewrite !if_and, andb_assoc. f_equal. apply IH. simpl in Hlen. lia.
    + rewrite H1, H2, H3, H4, H5. destruct r as [|c1 [|c2 r']]; cbn [utf8_dfa]; try reflexivity.
      * destruct (in_range 128 159 c1); reflexivity.
      * rewrite !if_and, andb_assoc. f_equal. apply IH. simpl in Hlen. lia.
    + rewrite H1, H2, H3, H4, H5, H6. destruct r as [|c1 [|c2 r']]; cbn [utf8_dfa]; try reflexivity.
      * destruct (in_range 128 191 c1); reflexivity.
      * rewrite !if_and, andb_assoc. f_equal. apply IH. simpl in Hlen. lia.
    + rewrite H1, H2, H3, H4, H5, H6, H7, H8.
      destruct r as [|c1 [|c2 [|c3 r']]]; cbn [utf8_dfa]; try reflexivity.
      * destruct (in_range 144 191 c1); reflexivity.
      * rewrite !if_and. destruct (in_range 144 191 c1), (in_range 128 191 c2); reflexivity.
      * rewrite !if_and, !andb_assoc. f_equal. apply IH. simpl in Hlen. lia.
    + rewrite H1, H2, H3, H4, H5, H6, H7, H8, H9.
      destruct r as [|c1 [|c2 [|c3 r']]]; cbn [utf8_dfa]; try reflexivity.
      * destruct (in_range 128 143 c1); reflexivity.
      * rewrite !if_and. destruct (in_range 128 143 c1), (in_range 128 191 c2); reflexivity.
      * rewrite !if_and, !andb_assoc. f_equal. apply IH. simpl in Hlen. lia.
    + rewrite H1, H2, H3, H4, H5, H6, H7, H8, H9, H10.
      destruct r as [|c1 [|c2 [|c3 r']]]; cbn [utf8_dfa]; try reflexivity.
      * destruct (in_range 128 191 c1); reflexivity.
      * rewrite !if_and. destruct (in_range 128 191 c1), (in_range 128 191 c2); reflexivity.
      * rewrite !if_and, !andb_assoc. f_equal. apply IH. simpl in Hlen. lia.
    + rewrite H1, H2, H3, H4, H5, H6, H7, H8, H9, H10. reflexivity.
Qed.

Theorem utf8_ok_is_utf8_valid : forall d, utf8_ok d = utf8_valid d.
Proof. intros d. unfold utf8_ok, utf8_valid. symmetry. apply utf8_fuel_dfa. lia. Qed.

(* C02 — the script level: how run() cuts the script text into lines, how the lines reach the
   tokenizer one after the other, and the commands that change what a later line or an executed
   program sees (env with arguments, ts.Setenv from a custom command, cd) next to those that
   only read (the argument-less env listing, env NAME, exists, grep, cmp, stdout, ...).
   Executable definitions only (proofs: TsScriptFacts.v).

   Go code followed:
     testscript/testscript.go  run():  for script != "" { ts.lineno++; var line string
                                         if i := strings.Index(script, "\n"); i >= 0 {
                                           line, script = script[:i], script[i+1:]
                                         } else { line, script = script, "" } ... ts.runLine(line) }
                               Setenv, Getenv, Chdir (ts.cd = absolute directory)
     testscript/cmd.go         cmdEnv (len(args) == 0: listing; NAME: display; NAME=VALUE: Setenv),
                               cmdCd *)
From Coq Require Import List Bool Arith NArith.
From Coq.Strings Require Import Byte.
From GI Require Import Lib.Bytes Gen.TsParseConsts TsParse.TsParse TsParse.TsSpec TsParse.TsHolds.
Import ListNotations.
Local Notation bytes := (list byte) (only parsing).

(* ------------------------------------------------------------------ script text -> lines *)

(* the loop of run(): a line is the text up to the next LF (which is dropped); what follows the
   last LF is a line of its own when it is not empty; nothing else is removed (a CR before the LF
   stays in the line: the tokenizer treats it as a separator) *)
Fixpoint script_lines (s : bytes) : list bytes :=
  match s with
  | [] => []
  | c :: r =>
      if beq c NL then [] :: script_lines r
      else match script_lines r with
           | [] => [[c]]
           | l :: ls => (c :: l) :: ls
           end
  end.

(* the same loop with accumulators (constant stack: this is the form that is extracted and run
   on scripts of megabytes); cur_rev = the bytes of the current line, newest first *)
Fixpoint script_lines_acc (s cur_rev : bytes) (acc_rev : list bytes) : list bytes :=
  match s with
  | [] => rev_append (match cur_rev with
                      | [] => acc_rev
                      | _ => rev_append cur_rev [] :: acc_rev
                      end) []
  | c :: r =>
      if beq c NL then script_lines_acc r [] (rev_append cur_rev [] :: acc_rev)
      else script_lines_acc r (c :: cur_rev) acc_rev
  end.
Definition script_lines_tr (s : bytes) : list bytes := script_lines_acc s [] [].

(* the inverse used in the statements: every line followed by LF *)
Definition unlines (ls : list bytes) : bytes := flat_map (fun l => l ++ [NL]) ls.

(* the script does not end in LF (and is not empty): its last line is unterminated *)
Definition open_ended (s : bytes) : bool :=
  match last_byte s with Some c => negb (beq c NL) | None => false end.

(* ------------------------------------------------------------------ lines -> tokenizer, in order *)

(* the lines are handed to the tokenizer one after the other, each in the environment left by
   the lines before it (ts_step: an env line changes it); one result per line *)
Fixpoint run_lines (st : ts_env) (ls : list bytes) : ts_env * list (option (list bytes)) :=
  match ls with
  | [] => (st, [])
  | l :: r =>
      let '(st1, res) := ts_step st l in
      let '(st2, rs) := run_lines st1 r in
      (st2, res :: rs)
  end.

Definition run_script (st : ts_env) (script : bytes) : ts_env * list (option (list bytes)) :=
  run_lines st (script_lines_tr script).

(* ------------------------------------------------------------------ histories of commands *)

(* what a command of a script does to the state other lines and executed programs observe *)
Inductive hcmd : Type :=
| HEnv (args : list bytes)      (* env ARGS: NAME=VALUE sets, NAME displays, no argument lists *)
| HSetenv (k v : bytes)         (* ts.Setenv(k, v) called by a custom command *)
| HCd (dir : bytes)             (* cd: ts.cd becomes the (absolute) directory *)
| HRead.                        (* a command that only reads: exists, grep, cmp, stdout, ... *)

Record hstate := { hs_env : ts_env; hs_cd : bytes }.

Definition hstep (s : hstate) (c : hcmd) : hstate :=
  match c with
  | HEnv args => {| hs_env := cmd_env args (hs_env s); hs_cd := hs_cd s |}
  | HSetenv k v => {| hs_env := setenv k v (hs_env s); hs_cd := hs_cd s |}
  | HCd dir => {| hs_env := hs_env s; hs_cd := dir |}
  | HRead => s
  end.

Definition hrun (h : list hcmd) (s : hstate) : hstate := fold_left hstep h s.

(* an argument of env that assigns nothing *)
Definition display_arg (a : bytes) : bool := is_nil_opt (split_kv a).

(* commands that only read: the listing (env without arguments), env NAME ..., and HRead *)
Definition readonly (c : hcmd) : bool :=
  match c with
  | HEnv args => forallb display_arg args
  | HRead => true
  | _ => false
  end.

(* the assignments of a history, oldest first *)
Definition cmd_assigns (c : hcmd) : list (bytes * bytes) :=
  match c with
  | HEnv args => flat_map (fun a => match split_kv a with Some kv => [kv] | None => [] end) args
  | HSetenv k v => [(k, v)]
  | _ => []
  end.
Definition hist_assigns (h : list hcmd) : list (bytes * bytes) := flat_map cmd_assigns h.

(* value of the last assignment to k, if any *)
Fixpoint last_assign (k : bytes) (l : list (bytes * bytes)) : option bytes :=
  match l with
  | [] => None
  | (k', v) :: r =>
      match last_assign k r with
      | Some v' => Some v'
      | None => if bytes_eqb k' k then Some v else None
      end
  end.

(* the directory of the last cd, if any *)
Fixpoint last_cd (h : list hcmd) : option bytes :=
  match h with
  | [] => None
  | c :: r =>
      match last_cd r with
      | Some d => Some d
      | None => match c with HCd d => Some d | _ => None end
      end
  end.

(* ts.Setenv is used as documented: the key holds no KEY=VALUE separator *)
Definition api_ok (c : hcmd) : bool :=
  match c with HSetenv k _ => no_sepb k | _ => true end.

(* the command a script line stands for, as far as this group is concerned: a line whose first
   word is the env command is that env command; every other line only reads (cd and the custom
   commands calling ts.Setenv are given to the model as HCd / HSetenv by the runner) *)
Definition hcmd_of_line (st : ts_env) (line : bytes) : hcmd :=
  match ts_parse st line with
  | Some (c :: args) => if bytes_eqb c ts_env_cmd then HEnv args else HRead
  | _ => HRead
  end.

(* what the argument-less env prints: every variable of the list once, at its first position,
   with the value expansion uses; None = the Go code indexes kv[:-1] on an entry without
   separator and panics *)
Fixpoint env_listing_go (m : envmap) (l : list bytes) (printed : list bytes) : option (list (bytes * bytes)) :=
  match l with
  | [] => Some []
  | kv :: r =>
      match split_kv kv with
      | None => None
      | Some (k, _) =>
          if mem_bytes k printed then env_listing_go m r printed
          else option_map (cons (k, map_get m k)) (env_listing_go m r (k :: printed))
      end
  end.
Definition env_listing (st : ts_env) : option (list (bytes * bytes)) :=
  env_listing_go (env_map st) (env_list st) [].

(* ------------------------------------------------------------------ the history statements as one executable boolean *)

Definition pick (o : option bytes) (d : bytes) : bytes := match o with Some v => v | None => d end.

Fixpoint envmap_eqb (a b : envmap) : bool :=
  match a, b with
  | [], [] => true
  | (k, v) :: a', (k', v') :: b' => bytes_eqb k k' && bytes_eqb v v' && envmap_eqb a' b'
  | _, _ => false
  end.

Definition hstate_eqb (a b : hstate) : bool :=
  words_eqb (env_list (hs_env a)) (env_list (hs_env b))
  && envmap_eqb (env_map (hs_env a)) (env_map (hs_env b))
  && bytes_eqb (hs_cd a) (hs_cd b).

(* [history_holds h vars cd0 k] evaluates, on the concrete history h run from the initial variables
   vars in directory cd0, the statements of the history theorems for the name k: dropping the
   read-only commands changes nothing; ts.Getenv is the latest assignment; an executed program has
   the directory of the latest cd as PWD and (ts.Setenv used properly, regular name other than
   PWD) finds the value ts.Getenv gives.  Extracted with the model; the driver accumulates the
   history of every script it is told and the runner asks this for every history script.
   TsScriptFacts.v proves that it is constantly true. *)
Definition history_holds (h : list hcmd) (vars : list bytes) (cd0 k : bytes) : bool :=
  let s0 := {| hs_env := setup_env vars; hs_cd := cd0 |} in
  let s := hrun h s0 in
  hstate_eqb (hrun (filter (fun c => negb (readonly c)) h) s0) s
  && bytes_eqb (getenv (hs_env s) k) (pick (last_assign k (hist_assigns h)) (or_empty (list_get vars k)))
  && match child_env (hs_env s) (hs_cd s) with
     | Some l =>
         opt_bytes_eqb (child_lookup pwd_key l) (Some (pick (last_cd h) cd0))
         && (if forallb api_ok h && regularb k && negb (bytes_eqb k pwd_key)
             then bytes_eqb (or_empty (child_lookup k l)) (getenv (hs_env s) k)
             else true)
     | None => true
     end.

(* C02 — the script level: no line is lost or altered by the line splitter of run() whatever its
   length and position, every line reaches the tokenizer exactly once and in order, read-only
   commands are the identity on (env list, env map, cwd), and after any history of env / ts.Setenv
   / cd / read-only commands the lookup map, the list and an executed program agree on the value of
   the latest assignment. *)
From Coq Require Import List Bool Arith NArith Lia.
From Coq.Strings Require Import Byte.
From GI Require Import Lib.Bytes Gen.TsParseConsts TsParse.TsParse TsParse.TsSpec TsParse.TsParseFacts
  TsParse.TsEnvFacts TsParse.TsHolds TsParse.TsRegexFacts TsParse.TsCmpFacts TsParse.TsHoldsFacts.
From GI Require Import TsParse.TsScript.
Import ListNotations.
Local Notation bytes := (list byte) (only parsing).

(* ------------------------------------------------------------------ the line splitter *)

(* glue a prefix to the first line of a list of lines *)
Definition prepend (p : bytes) (ls : list bytes) : list bytes :=
  match ls with
  | [] => match p with [] => [] | _ => [p] end
  | l :: r => (p ++ l) :: r
  end.

Lemma prepend_nil : forall ls, prepend [] ls = ls.
Proof. intros [|l r]; reflexivity. Qed.

Lemma prepend_snoc : forall p c ls, prepend p (prepend [c] ls) = prepend (p ++ [c]) ls.
Proof.
  intros p c [|l r]; simpl.
  - destruct (p ++ [c]) eqn:E; [destruct p; discriminate|reflexivity].
  - rewrite <- app_assoc. reflexivity.
Qed.

Lemma script_lines_cons_other : forall c r,
  beq c NL = false -> script_lines (c :: r) = prepend [c] (script_lines r).
Proof. intros c r H. simpl. rewrite H. destruct (script_lines r); reflexivity. Qed.

Lemma script_lines_acc_spec : forall s cur_rev acc_rev,
  script_lines_acc s cur_rev acc_rev = rev acc_rev ++ prepend (rev cur_rev) (script_lines s).
Proof.
  induction s as [|c r IH]; intros cur_rev acc_rev.
  - simpl script_lines_acc. simpl script_lines. unfold prepend.
    destruct cur_rev as [|x cur].
    + rewrite rev_append_rev, app_nil_r. simpl. rewrite app_nil_r. reflexivity.
    + rewrite !rev_append_rev, !app_nil_r.
      assert (Hne : rev (x :: cur) <> []).
      { intros E. apply (f_equal (@length byte)) in E. rewrite rev_length in E. discriminate. }
      remember (rev (x :: cur)) as p eqn:Ep. clear Ep.
      destruct p as [|b p]; [contradiction|]. simpl. reflexivity.
  - simpl script_lines_acc. destruct (beq c NL) eqn:E.
    + rewrite IH. simpl script_lines. rewrite E. rewrite rev_append_rev, app_nil_r.
      rewrite prepend_nil. simpl rev. rewrite <- app_assoc. simpl. rewrite app_nil_r. reflexivity.
    + rewrite IH. rewrite (script_lines_cons_other c r E). simpl rev. rewrite prepend_snoc. reflexivity.
Qed.

(* the extracted, constant-stack splitter is the splitter of the statements *)
Theorem script_lines_tr_eq : forall s, script_lines_tr s = script_lines s.
Proof. intros s. unfold script_lines_tr. rewrite script_lines_acc_spec. simpl. apply prepend_nil. Qed.

Lemma script_lines_nil_inv : forall s, script_lines s = [] -> s = [].
Proof.
  intros [|c r] H; [reflexivity|]. simpl in H. destruct (beq c NL); [discriminate|].
  destruct (script_lines r); discriminate.
Qed.

Lemma last_byte_cons : forall c x r, last_byte (c :: x :: r) = last_byte (x :: r).
Proof.
  intros c x r. unfold last_byte. change (rev (c :: x :: r)) with (rev (x :: r) ++ [c]).
  destruct (rev (x :: r)) eqn:E; [|reflexivity].
  exfalso. apply (f_equal (@length byte)) in E. rewrite rev_length in E. discriminate.
Qed.

Lemma open_ended_cons : forall c x r, open_ended (c :: x :: r) = open_ended (x :: r).
Proof. intros. unfold open_ended. rewrite last_byte_cons. reflexivity. Qed.

Lemma unlines_cons : forall l ls, unlines (l :: ls) = l ++ NL :: unlines ls.
Proof. intros. unfold unlines. simpl. rewrite <- app_assoc. reflexivity. Qed.

(* every byte of the script belongs to exactly one line, in order: writing the lines back with
   their line feeds gives the script (plus the line feed its last line lacked); no line is
   dropped or cut, whatever its length *)
Theorem lines_total : forall s,
  unlines (script_lines s) = s ++ (if open_ended s then [NL] else []).
Proof.
  induction s as [|c r IH]; [reflexivity|].
  destruct (beq c NL) eqn:E.
  - simpl script_lines. rewrite E. rewrite unlines_cons, IH. apply beq_true in E. subst c. simpl.
    destruct r as [|x r]; [reflexivity|]. rewrite open_ended_cons. reflexivity.
  - rewrite (script_lines_cons_other c r E).
    destruct (script_lines r) as [|l ls] eqn:El.
    + apply script_lines_nil_inv in El. subst r. simpl. unfold open_ended, last_byte. simpl. rewrite E. reflexivity.
    + simpl prepend. rewrite unlines_cons. rewrite unlines_cons in IH. simpl. f_equal.
      rewrite IH. destruct r as [|x r]; [discriminate El|]. rewrite open_ended_cons. reflexivity.
Qed.

Theorem lines_no_nl : forall s, Forall (fun l => ~ In NL l) (script_lines s).
Proof.
  induction s as [|c r IH]; [constructor|].
  destruct (beq c NL) eqn:E.
  - simpl. rewrite E. constructor; [intros []|exact IH].
  - rewrite (script_lines_cons_other c r E). destruct (script_lines r) as [|l ls].
    + constructor; [|constructor]. intros [H|[]]. subst c. rewrite beq_refl in E. discriminate.
    + inversion IH as [|x y Hl Hls]; subst. constructor; [|exact Hls].
      intros [H|H]; [subst c; rewrite beq_refl in E; discriminate|exact (Hl H)].
Qed.

Lemma script_lines_line : forall l rest,
  ~ In NL l -> script_lines (l ++ NL :: rest) = l :: script_lines rest.
Proof.
  induction l as [|c l IH]; intros rest H.
  - reflexivity.
  - assert (E : beq c NL = false) by (apply beq_neq; intros X; apply H; left; exact X).
    change ((c :: l) ++ NL :: rest) with (c :: (l ++ NL :: rest)).
    rewrite (script_lines_cons_other c _ E), IH by (intros X; apply H; right; exact X). reflexivity.
Qed.

Lemma script_lines_last : forall l, l <> [] -> ~ In NL l -> script_lines l = [l].
Proof.
  induction l as [|c l IH]; intros Hne H; [contradiction|].
  assert (E : beq c NL = false) by (apply beq_neq; intros X; apply H; left; exact X).
  rewrite (script_lines_cons_other c _ E). destruct l as [|x l]; [reflexivity|].
  rewrite IH; [reflexivity|discriminate|intros X; apply H; right; exact X].
Qed.

(* a script written line by line is read back as exactly these lines, whatever their lengths
   (the lines may hold any byte but LF: CR, NUL, quotes, ...) *)
Theorem lines_of_unlines : forall ls,
  Forall (fun l => ~ In NL l) ls -> script_lines (unlines ls) = ls.
Proof.
  induction ls as [|l ls IH]; intros H; [reflexivity|].
  inversion H as [|x y Hl Hls]; subst. rewrite unlines_cons, (script_lines_line l _ Hl), (IH Hls). reflexivity.
Qed.

(* ... also when the last line has no line feed *)
Theorem lines_of_unlines_open : forall ls l,
  Forall (fun l => ~ In NL l) ls -> l <> [] -> ~ In NL l ->
  script_lines (unlines ls ++ l) = ls ++ [l].
Proof.
  induction ls as [|x ls IH]; intros l H Hne Hl.
  - simpl. apply script_lines_last; assumption.
  - inversion H as [|a b Hx Hls]; subst. rewrite unlines_cons, <- app_assoc. simpl app.
    rewrite (script_lines_line x _ Hx), (IH l Hls Hne Hl). reflexivity.
Qed.

(* the line terminator of run() is the LF of the statements; a phase comment line, which run()
   does not hand to the tokenizer, is a line in which the tokenizer finds no word *)
Theorem line_sep_is_nl : ts_line_sep = [NL].
Proof. reflexivity. Qed.

Theorem phase_line_no_words : forall st r, ts_parse st (ts_phase_prefix ++ r) = Some [].
Proof.
  intros st r. change (ts_phase_prefix ++ r) with ([] ++ x23 :: r).
  rewrite (parse_comment st [] x23 r); reflexivity.
Qed.

Theorem phase_line_keeps_state : forall st r, fst (ts_step st (ts_phase_prefix ++ r)) = st.
Proof. intros st r. unfold ts_step. rewrite phase_line_no_words. reflexivity. Qed.

(* ------------------------------------------------------------------ every line reaches the tokenizer *)

Lemma run_lines_cons : forall st l r,
  run_lines st (l :: r) =
  (fst (run_lines (fst (ts_step st l)) r), snd (ts_step st l) :: snd (run_lines (fst (ts_step st l)) r)).
Proof.
  intros st l r. simpl. destruct (ts_step st l) as [st1 res]. simpl.
  destruct (run_lines st1 r) as [st2 rs]. reflexivity.
Qed.

Lemma ts_step_snd : forall st l, snd (ts_step st l) = ts_parse st l.
Proof.
  intros st l. unfold ts_step. destruct (ts_parse st l) as [[|c args]|]; try reflexivity.
  destruct (bytes_eqb c ts_env_cmd); reflexivity.
Qed.

Theorem run_lines_length : forall ls st, length (snd (run_lines st ls)) = length ls.
Proof.
  induction ls as [|l r IH]; intros st; [reflexivity|]. rewrite run_lines_cons. simpl. rewrite IH. reflexivity.
Qed.

(* one tokenizer call per line, in order: result number i is the tokenizer's answer for line
   number i in the environment left by the lines before it *)
Theorem run_lines_each : forall ls st i l,
  nth_error ls i = Some l ->
  nth_error (snd (run_lines st ls)) i = Some (ts_parse (fst (run_lines st (firstn i ls))) l).
Proof.
  induction ls as [|x r IH]; intros st i l H; [destruct i; discriminate|].
  rewrite run_lines_cons. destruct i as [|i].
  - injection H as H. subst x. simpl. rewrite ts_step_snd. reflexivity.
  - simpl in H. simpl nth_error. rewrite (IH _ i l H). simpl firstn. rewrite run_lines_cons. reflexivity.
Qed.

Theorem run_script_length : forall st s,
  length (snd (run_script st s)) = length (script_lines s).
Proof. intros. unfold run_script. rewrite script_lines_tr_eq. apply run_lines_length. Qed.

Definition quoted_line (ws : list bytes) : bytes := join_sp (map sq ws).

Lemma run_quoted_lines : forall wss st, snd (run_lines st (map quoted_line wss)) = map Some wss.
Proof.
  induction wss as [|ws wss IH]; intros st; [reflexivity|].
  simpl map. rewrite run_lines_cons. simpl. rewrite ts_step_snd. unfold quoted_line at 1.
  rewrite parse_quote_words, IH. reflexivity.
Qed.

(* EVERY line's words reach its command: a script of any number of lines, each the quoting of any
   words (of any length, holding any bytes but LF), gives for every line exactly its words,
   whatever the environment and whatever the lines before it did to it *)
Theorem script_quoted_lines : forall st wss,
  Forall (Forall (fun w => ~ In NL w)) wss ->
  snd (run_script st (unlines (map quoted_line wss))) = map Some wss.
Proof.
  intros st wss H. unfold run_script. rewrite script_lines_tr_eq, lines_of_unlines.
  - apply run_quoted_lines.
  - induction H as [|ws wss Hws _ IH]; [constructor|]. constructor; [|exact IH].
    apply quoted_line_single. exact Hws.
Qed.

(* ------------------------------------------------------------------ histories: read-only commands *)

Lemma cmd_env_display : forall args st, forallb display_arg args = true -> cmd_env args st = st.
Proof.
  induction args as [|a args IH]; intros st H; [reflexivity|].
  simpl in H. apply andb_true_iff in H. destruct H as [Ha Hr].
  simpl. unfold cmd_env_arg. unfold display_arg in Ha. destruct (split_kv a); [discriminate|].
  apply IH. exact Hr.
Qed.

(* a command that only reads leaves the list handed to programs, the lookup map and the current
   directory as they are: the listing `env`, `env NAME`, exists, grep, cmp, ... *)
Theorem hstep_readonly : forall s c, readonly c = true -> hstep s c = s.
Proof.
  intros [e d] [args|k v|dir|] H; try discriminate H; simpl.
  - rewrite (cmd_env_display args e H). reflexivity.
  - reflexivity.
Qed.

(* ... wherever it stands in a history: dropping all of them changes nothing of what is seen afterwards *)
Theorem readonly_commands_frame : forall h s,
  hrun (filter (fun c => negb (readonly c)) h) s = hrun h s.
Proof.
  induction h as [|c h IH]; intros s; [reflexivity|].
  simpl filter. destruct (readonly c) eqn:E; simpl negb; cbv iota.
  - unfold hrun at 2. simpl fold_left. rewrite (hstep_readonly s c E). apply IH.
  - unfold hrun. simpl fold_left. apply IH.
Qed.

Theorem listing_is_identity : forall s, hstep s (HEnv []) = s.
Proof. intros s. apply hstep_readonly. reflexivity. Qed.

(* a script line is the command hcmd_of_line reads from it *)
Theorem ts_step_is_hstep : forall st cd line,
  fst (ts_step st line) = hs_env (hstep {| hs_env := st; hs_cd := cd |} (hcmd_of_line st line)).
Proof.
  intros st cd line. unfold ts_step, hcmd_of_line.
  destruct (ts_parse st line) as [[|c args]|]; try reflexivity.
  destruct (bytes_eqb c ts_env_cmd); reflexivity.
Qed.

(* ------------------------------------------------------------------ histories: the latest assignment wins *)

Lemma last_assign_app : forall k a b,
  last_assign k (a ++ b) = match last_assign k b with Some v => Some v | None => last_assign k a end.
Proof.
  intros k a b. induction a as [|[k' v] a IH]; simpl.
  - destruct (last_assign k b); reflexivity.
  - rewrite IH. destruct (last_assign k b); reflexivity.
Qed.

Lemma cmd_env_getenv : forall args st k,
  getenv (cmd_env args st) k = pick (last_assign k (cmd_assigns (HEnv args))) (getenv st k).
Proof.
  induction args as [|a args IH]; intros st k; [reflexivity|].
  change (cmd_env (a :: args) st) with (cmd_env args (cmd_env_arg st a)). rewrite IH.
  simpl cmd_assigns. rewrite last_assign_app.
  fold (cmd_assigns (HEnv args)).
  destruct (last_assign k (cmd_assigns (HEnv args))); [reflexivity|].
  unfold cmd_env_arg. destruct (split_kv a) as [[k' v]|]; [|reflexivity].
  simpl. destruct (bytes_eqb k' k) eqn:E.
  - apply bytes_eqb_true in E. subst k'. apply getenv_setenv_same.
  - apply bytes_eqb_false in E. apply getenv_setenv_other. exact E.
Qed.

Lemma hstep_getenv : forall s c k,
  getenv (hs_env (hstep s c)) k = pick (last_assign k (cmd_assigns c)) (getenv (hs_env s) k).
Proof.
  intros s [args|k' v|dir|] k; simpl hs_env; try reflexivity.
  - apply cmd_env_getenv.
  - simpl. destruct (bytes_eqb k' k) eqn:E.
    + apply bytes_eqb_true in E. subst k'. apply getenv_setenv_same.
    + apply bytes_eqb_false in E. apply getenv_setenv_other. exact E.
Qed.

(* after any history, expansion and ts.Getenv see the value of the latest assignment (by env or by
   ts.Setenv), or the initial value when the history assigns nothing to the name *)
Theorem history_latest_wins : forall h s k,
  getenv (hs_env (hrun h s)) k = pick (last_assign k (hist_assigns h)) (getenv (hs_env s) k).
Proof.
  induction h as [|c h IH]; intros s k; [reflexivity|].
  change (hrun (c :: h) s) with (hrun h (hstep s c)). rewrite IH.
  change (hist_assigns (c :: h)) with (cmd_assigns c ++ hist_assigns h). rewrite last_assign_app.
  destruct (last_assign k (hist_assigns h)); [reflexivity|]. simpl pick. apply hstep_getenv.
Qed.

Lemma no_sepb_true : forall k, no_sepb k = true -> no_sep k.
Proof. intros k H. unfold no_sepb in H. unfold no_sep. destruct (index_byte ts_env_sep k); [discriminate|reflexivity]. Qed.

Lemma hstep_consistent : forall s c,
  api_ok c = true -> consistent (hs_env s) -> consistent (hs_env (hstep s c)).
Proof.
  intros s [args|k v|dir|] Hok Hc; simpl hs_env; try exact Hc.
  - apply cmd_env_consistent. exact Hc.
  - apply setenv_consistent; [apply no_sepb_true; exact Hok|exact Hc].
Qed.

(* the lookup map keeps agreeing with the list through any history that uses ts.Setenv with a
   proper key *)
Theorem history_consistent : forall h s,
  forallb api_ok h = true -> consistent (hs_env s) -> consistent (hs_env (hrun h s)).
Proof.
  induction h as [|c h IH]; intros s Hok Hc; [exact Hc|].
  simpl in Hok. apply andb_true_iff in Hok. destruct Hok as [H1 H2].
  change (hrun (c :: h) s) with (hrun h (hstep s c)). apply IH; [exact H2|].
  apply hstep_consistent; assumption.
Qed.

(* ... and a program executed at that point finds, under every regular name but PWD, the value of
   the latest assignment: what $NAME expands to *)
Theorem history_child_agrees : forall h vars cd0 k l,
  forallb api_ok h = true -> regular k -> k <> pwd_key ->
  let s := hrun h {| hs_env := setup_env vars; hs_cd := cd0 |} in
  child_env (hs_env s) (hs_cd s) = Some l ->
  or_empty (child_lookup k l) = getenv (hs_env s) k /\
  getenv (hs_env s) k = pick (last_assign k (hist_assigns h)) (or_empty (list_get vars k)).
Proof.
  intros h vars cd0 k l Hok Hk Hpwd s H. split.
  - apply (child_env_agrees (hs_env s) (hs_cd s) k l); try assumption.
    apply history_consistent; [exact Hok|apply setup_consistent].
  - unfold s. rewrite history_latest_wins. simpl hs_env. rewrite (setup_consistent vars k). reflexivity.
Qed.

Lemma hrun_cd : forall h s, hs_cd (hrun h s) = pick (last_cd h) (hs_cd s).
Proof.
  induction h as [|c h IH]; intros s; [reflexivity|].
  change (hrun (c :: h) s) with (hrun h (hstep s c)). rewrite IH. simpl last_cd.
  destruct (last_cd h); [reflexivity|]. destruct c; reflexivity.
Qed.

(* the PWD of an executed program is the directory of the latest cd *)
Theorem history_child_pwd : forall h s l,
  child_env (hs_env (hrun h s)) (hs_cd (hrun h s)) = Some l ->
  child_lookup pwd_key l = Some (pick (last_cd h) (hs_cd s)).
Proof. intros h s l H. rewrite (child_pwd _ _ _ H). rewrite hrun_cd. reflexivity. Qed.

(* ------------------------------------------------------------------ the executable form *)

Lemma envmap_eqb_refl : forall a, envmap_eqb a a = true.
Proof. induction a as [|[k v] a IH]; [reflexivity|]. simpl. rewrite !bytes_eqb_refl, IH. reflexivity. Qed.

Lemma hstate_eqb_eq : forall a b, a = b -> hstate_eqb a b = true.
Proof.
  intros a b H. subst b. unfold hstate_eqb. rewrite words_eqb_refl, envmap_eqb_refl, bytes_eqb_refl. reflexivity.
Qed.

Theorem history_holds_true : forall h vars cd0 k, history_holds h vars cd0 k = true.
Proof.
  intros h vars cd0 k. unfold history_holds.
  set (s0 := {| hs_env := setup_env vars; hs_cd := cd0 |}).
  rewrite (hstate_eqb_eq _ _ (readonly_commands_frame h s0)).
  assert (Hg : getenv (hs_env (hrun h s0)) k
               = pick (last_assign k (hist_assigns h)) (or_empty (list_get vars k))).
  { rewrite history_latest_wins. unfold s0. simpl hs_env. rewrite (setup_consistent vars k). reflexivity. }
  rewrite (bytes_eqb_eq _ _ Hg).
  simpl andb.
  destruct (child_env (hs_env (hrun h s0)) (hs_cd (hrun h s0))) as [l|] eqn:E; [|reflexivity].
  assert (Hp : child_lookup pwd_key l = Some (pick (last_cd h) cd0)) by exact (history_child_pwd h s0 l E).
  rewrite (opt_bytes_eqb_eq _ _ Hp). simpl andb.
  destruct (forallb api_ok h) eqn:Eok; [|reflexivity].
  destruct (regularb k) eqn:Ek; [|reflexivity]. apply regularb_ok in Ek.
  destruct (bytes_eqb k pwd_key) eqn:Ep; [reflexivity|]. apply bytes_eqb_false in Ep.
  simpl. apply bytes_eqb_eq.
  exact (proj1 (history_child_agrees h vars cd0 k l Eok Ek Ep E)).
Qed.

(* ------------------------------------------------------------------ the listing *)

Lemma env_listing_go_values : forall m l printed out,
  env_listing_go m l printed = Some out -> forall k v, In (k, v) out -> v = map_get m k.
Proof.
  induction l as [|kv r IH]; intros printed out H k v Hin.
  - injection H as H. subst out. destruct Hin.
  - simpl in H. destruct (split_kv kv) as [[k' v']|]; [|discriminate].
    destruct (mem_bytes k' printed).
    + exact (IH _ _ H k v Hin).
    + destruct (env_listing_go m r (k' :: printed)) as [o|] eqn:E; [|discriminate].
      injection H as H. subst out. destruct Hin as [Hin|Hin].
      * injection Hin as H1 H2. subst. reflexivity.
      * exact (IH _ _ E k v Hin).
Qed.

Lemma env_listing_go_keys : forall m l printed out,
  env_listing_go m l printed = Some out ->
  NoDup (map fst out) /\ (forall k, In k (map fst out) -> ~ In k printed) /\
  (forall kv k v, In kv l -> split_kv kv = Some (k, v) -> In k printed \/ In k (map fst out)).
Proof.
  induction l as [|kv r IH]; intros printed out H.
  - injection H as H. subst out. split; [constructor|]. split; [intros k []|intros kv k v []].
  - simpl in H. destruct (split_kv kv) as [[k' v']|] eqn:Ek; [|discriminate].
    destruct (mem_bytes k' printed) eqn:Em.
    + destruct (IH _ _ H) as [N [F C]]. split; [exact N|]. split; [exact F|].
      intros kv0 k v [Hin|Hin] Hs.
      * subst kv0. rewrite Ek in Hs. injection Hs as H1 H2. subst. left. apply mem_bytes_true. exact Em.
      * exact (C kv0 k v Hin Hs).
    + destruct (env_listing_go m r (k' :: printed)) as [o|] eqn:E; [|discriminate].
      injection H as H. subst out. destruct (IH _ _ E) as [N [F C]]. simpl map. split.
      * constructor; [|exact N]. intros X. apply (F k' X). left. reflexivity.
      * split.
        -- intros k [Hk|Hk] Hp.
           ++ subst k. apply mem_bytes_true in Hp. rewrite Em in Hp. discriminate.
           ++ apply (F k Hk). right. exact Hp.
        -- intros kv0 k v [Hin|Hin] Hs.
           ++ subst kv0. rewrite Ek in Hs. injection Hs as H1 H2. subst. right. left. reflexivity.
           ++ destruct (C kv0 k v Hin Hs) as [[X|X]|X].
              ** subst k. right. left. reflexivity.
              ** left. exact X.
              ** right. right. exact X.
Qed.

(* what the argument-less env prints: every variable of the list exactly once, with the value
   expansion uses (the latest assignment) *)
Theorem env_listing_shows_current : forall st out,
  env_listing st = Some out ->
  (forall k v, In (k, v) out -> v = getenv st k) /\
  NoDup (map fst out) /\
  (forall kv k v, In kv (env_list st) -> split_kv kv = Some (k, v) -> In k (map fst out)).
Proof.
  intros st out H. unfold env_listing in H. split.
  - intros k v Hin. exact (env_listing_go_values _ _ _ _ H k v Hin).
  - destruct (env_listing_go_keys _ _ _ _ H) as [N [_ C]]. split; [exact N|].
    intros kv k v Hin Hs. destruct (C kv k v Hin Hs) as [[]|X]. exact X.
Qed.

(* ------------------------------------------------------------------ examples (non-vacuity) *)

From Coq Require Import String.

(* a three-line script: a long first line (a word of 70000 bytes: more than 64 KiB), CRLF, no
   final line feed *)
Definition ex_long : list byte := repeat x78 (N.to_nat 70000).
Definition ex_script : list byte :=
  (bs "rec "%string ++ ex_long) ++ NL :: bs "rec b"%string ++ [CR; NL] ++ bs "rec c"%string.
Definition lens (ls : list (list byte)) : list N := map (fun l => N.of_nat (List.length l)) ls.
Example lines_total_ex :
  open_ended (bs "rec b"%string ++ [CR; NL] ++ bs "rec c"%string) = true /\
  lens (script_lines_tr ex_script) = [70004; 6; 5]%N /\
  skipn 1 (script_lines_tr ex_script) = [bs "rec b"%string ++ [CR]; bs "rec c"%string] /\
  N.of_nat (List.length (unlines (script_lines_tr ex_script))) = 70018%N.
Proof. vm_compute. repeat split. Qed.

Example script_quoted_lines_ex :
  let wss := [[bs "rec"%string; bs "it's $A #"%string]; []; [bs "env"%string; bs "A=1"%string]; [bs "rec"%string; []; [CR]]] in
  Forall (Forall (fun w => ~ In NL w)) wss /\
  snd (run_script (setup_env []) (unlines (map quoted_line wss))) = map Some wss /\
  getenv (fst (run_script (setup_env []) (unlines (map quoted_line wss)))) (bs "A"%string) = bs "1"%string.
Proof.
  split; [|vm_compute; split; reflexivity].
  repeat constructor; intros H; vm_compute in H; repeat (destruct H as [H|H]; [discriminate H|]); exact H.
Qed.

(* X=b, X=a, the listing, exists: the program sees a (the latest), not b (the greatest) *)
Definition ex_hist : list hcmd :=
  [HEnv [bs "X=b"%string]; HRead; HEnv [bs "X=a"%string; bs "Y=1"%string]; HEnv []; HCd (bs "/w/sub"%string);
   HEnv [bs "X"%string]; HSetenv (bs "Z"%string) (bs "z z"%string); HRead].
Example history_ex :
  let s0 := {| hs_env := setup_env [bs "WORK=/w"%string; bs "X=zz"%string]; hs_cd := bs "/w"%string |} in
  forallb api_ok ex_hist = true /\ regular (bs "X"%string) /\ bs "X"%string <> pwd_key /\
  filter (fun c => negb (readonly c)) ex_hist
  = [HEnv [bs "X=b"%string]; HEnv [bs "X=a"%string; bs "Y=1"%string]; HCd (bs "/w/sub"%string); HSetenv (bs "Z"%string) (bs "z z"%string)] /\
  last_assign (bs "X"%string) (hist_assigns ex_hist) = Some (bs "a"%string) /\
  child_env (hs_env (hrun ex_hist s0)) (hs_cd (hrun ex_hist s0))
  = Some [bs "WORK=/w"%string; bs "X=a"%string; bs "Y=1"%string; bs "Z=z z"%string; bs "PWD=/w/sub"%string] /\
  env_listing (hs_env (hrun ex_hist s0))
  = Some [(bs "WORK"%string, bs "/w"%string); (bs "X"%string, bs "a"%string); (bs "Y"%string, bs "1"%string); (bs "Z"%string, bs "z z"%string)] /\
  history_holds ex_hist [bs "WORK=/w"%string; bs "X=zz"%string] (bs "/w"%string) (bs "X"%string) = true.
Proof.
  split; [reflexivity|]. split; [split; [discriminate|reflexivity]|]. split; [discriminate|].
  vm_compute. repeat split.
Qed.

(* an entry without separator (Setup may leave one): the listing is the Go panic *)
Example env_listing_panics_ex : env_listing (setup_env [bs "A=1"%string; bs "novalue"%string]) = None.
Proof. reflexivity. Qed.

(* C02 — vocabulary of the property statements: executable definitions only (no proofs), so
   that the boolean form of the statements (TsHolds.v) can be extracted and run even when a proof
   is being repaired. *)
From Coq Require Import List Bool Arith NArith.
From Coq.Strings Require Import Byte.
From GI Require Import Lib.Bytes Gen.TsParseConsts TsParse.TsParse.
Import ListNotations.
Local Notation bytes := (list byte) (only parsing).

(* bytes that neither separate nor quote *)
Definition word_byte (c : byte) : bool := negb (is_sep c) && negb (beq c ts_quote).
(* ... and do not start an expansion either *)
Definition plain_byte (c : byte) : bool := word_byte c && negb (beq c dollar).
(* separators that do not end the line *)
Definition blank_byte (c : byte) : bool := is_sep c && negb (is_comment c).

Fixpoint join_runs (ws : list (bytes * bytes)) : bytes :=
  match ws with
  | [] => []
  | (s, w) :: r => s ++ w ++ join_runs r
  end.

(* value of the last entry K=V of the list whose K (text before the first separator) is k *)
Fixpoint list_get (l : list bytes) (k : bytes) : option bytes :=
  match l with
  | [] => None
  | kv :: r =>
      match list_get r k with
      | Some v => Some v
      | None =>
          match split_kv kv with
          | Some (k', v) => if bytes_eqb k' k then Some v else None
          | None => None
          end
      end
  end.

Definition or_empty (o : option bytes) : bytes := match o with Some v => v | None => [] end.

Definition is_nil_opt {A} (o : option A) : bool := match o with None => true | Some _ => false end.

(* ------------------------------------------------------------------ decidable forms of the hypotheses *)

(* a valid $NAME: non-empty, alphanumeric, not starting with a one-character special name *)
Definition valid_nameb (k : bytes) : bool :=
  match k with
  | [] => false
  | c :: _ => forallb is_alnum k && negb (is_shell_special c)
  end.

(* a non-empty word of ordinary bytes *)
Definition plain_wordb (w : bytes) : bool := negb (is_nil w) && forallb plain_byte w.

(* the name between braces: non-empty, made of word bytes, without a closing brace *)
Definition brace_wordb (k : bytes) : bool :=
  negb (is_nil k) && is_nil_opt (index_byte rbrace k) && forallb word_byte k.

(* no KEY=VALUE separator in the name *)
Definition no_sepb (k : bytes) : bool := is_nil_opt (index_byte ts_env_sep k).

(* a regular environment name: non-empty, without "=" *)
Definition regularb (k : bytes) : bool := negb (is_nil k) && is_nil_opt (index_byte eq_byte k).

Definition no_dollarb (s : bytes) : bool := forallb (fun c => negb (beq c dollar)) s.

Definition no_alnum_headb (post : bytes) : bool :=
  match post with [] => true | c :: _ => negb (is_alnum c) end.

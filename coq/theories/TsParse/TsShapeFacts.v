(* C02 — the control structure of parse, expand and doCmdCmp read from the current source
   (Gen/TsParseConsts.v, regenerated on every run) is the one the model was written against
   (TsShape.v).  Kept in a file of its own: when this is the file that stops compiling, a modelled
   function was restructured and parse_go / expand_key / do_cmd_cmp must be re-read against it. *)
From Coq Require Import List.
From Coq.Strings Require Import Byte.
From GI Require Import Gen.TsParseConsts TsParse.TsShape.

Theorem source_shapes_current :
  ts_parse_shape = parse_go_shape /\ ts_expand_shape = expand_shape /\ ts_cmp_shape = cmp_shape.
Proof. vm_compute. repeat split. Qed.

(* the same for the script level: the line loop of run, cmdEnv, Setenv, Getenv, setEnv *)
Theorem script_shapes_current :
  ts_runloop_shape = runloop_shape /\ ts_cmdenv_shape = cmdenv_shape /\ ts_setenv_shape = setenv_shape /\
  ts_getenv_shape = getenv_shape /\ ts_setenvall_shape = setenvall_shape.
Proof. vm_compute. repeat split. Qed.

(* C02 — the executable form of the property statements is constantly true. *)
From Coq Require Import List Bool Arith NArith Lia.
From Coq.Strings Require Import Byte.
From GI Require Import Lib.Bytes Gen.TsParseConsts TsParse.TsParse TsParse.TsSpec TsParse.TsHolds
  TsParse.TsParseFacts TsParse.TsEnvFacts TsParse.TsRegexFacts TsParse.TsCmpFacts.
Import ListNotations.
Local Notation bytes := (list byte) (only parsing).

(* ------------------------------------------------------------------ reflection *)

Lemma words_eqb_refl : forall a, words_eqb a a = true.
Proof. induction a as [|x a IH]; [reflexivity|]. simpl. rewrite bytes_eqb_refl, IH. reflexivity. Qed.

Lemma opt_words_eqb_eq : forall a b, a = b -> opt_words_eqb a b = true.
Proof. intros a b H. subst b. destruct a as [x|]; [apply words_eqb_refl|reflexivity]. Qed.

Lemma opt_bytes_eqb_eq : forall a b, a = b -> opt_bytes_eqb a b = true.
Proof. intros a b H. subst b. destruct a as [x|]; [apply bytes_eqb_refl|reflexivity]. Qed.

Lemma bytes_eqb_eq : forall a b, a = b -> bytes_eqb a b = true.
Proof. intros a b H. subst. apply bytes_eqb_refl. Qed.

Lemma is_nil_false : forall (w : bytes), negb (is_nil w) = true -> w <> [].
Proof. intros [|c w] H; [discriminate|discriminate]. Qed.

Lemma is_nil_opt_none : forall (A : Type) (o : option A), is_nil_opt o = true -> o = None.
Proof. intros A [x|] H; [discriminate|reflexivity]. Qed.

Lemma valid_nameb_ok : forall k, valid_nameb k = true -> valid_name k.
Proof.
  intros [|c k] H; [discriminate|]. unfold valid_nameb in H. apply andb_true_iff in H.
  destruct H as [H1 H2]. apply negb_true_iff in H2.
  split; [discriminate|]. split; assumption.
Qed.

Lemma plain_wordb_ok : forall w, plain_wordb w = true -> plain_word w.
Proof.
  intros w H. unfold plain_wordb in H. apply andb_true_iff in H. destruct H as [H1 H2].
  split; [apply is_nil_false; exact H1|exact H2].
Qed.

Lemma brace_wordb_ok : forall k, brace_wordb k = true -> brace_word k.
Proof.
  intros k H. unfold brace_wordb in H. apply andb_true_iff in H. destruct H as [H H3].
  apply andb_true_iff in H. destruct H as [H1 H2].
  split; [split; [apply is_nil_false; exact H1|apply is_nil_opt_none; exact H2]|exact H3].
Qed.

Lemma no_sepb_ok : forall k, no_sepb k = true -> no_sep k.
Proof. intros k H. apply is_nil_opt_none. exact H. Qed.

Lemma regularb_ok : forall k, regularb k = true -> regular k.
Proof.
  intros k H. unfold regularb in H. apply andb_true_iff in H. destruct H as [H1 H2].
  split; [apply is_nil_false; exact H1|apply is_nil_opt_none; exact H2].
Qed.

Lemma no_alnum_headb_ok : forall p, no_alnum_headb p = true -> no_alnum_head p.
Proof. intros [|c p] H; [exact I|]. simpl in H. apply negb_true_iff in H. exact H. Qed.

Lemma filter_forallb : forall (p : byte -> bool) l, forallb p (filter p l) = true.
Proof.
  intros p l. induction l as [|c l IH]; [reflexivity|]. simpl. destruct (p c) eqn:E; [|exact IH].
  simpl. rewrite E. exact IH.
Qed.

(* ------------------------------------------------------------------ the parts *)

Lemma h_syntax_true : h_syntax = true.
Proof. reflexivity. Qed.

Lemma h_quote_true : forall st line k v, h_quote st line k v = true.
Proof.
  intros st line k v. unfold h_quote. apply andb_true_iff. split.
  - destruct (ts_parse st line) as [ws|]; [|reflexivity].
    apply opt_words_eqb_eq. apply parse_quote_words.
  - apply opt_words_eqb_eq. apply parse_quote_words.
Qed.

Lemma sp_tab_blank_run : blank_run [SP; TAB] /\ blank_run [TAB] /\ blank_run [SP].
Proof. repeat split. Qed.

Lemma h_plain_true : forall st line, h_plain st line = true.
Proof.
  intros st line. unfold h_plain. destruct (ts_parse st line) as [ws|]; [|reflexivity].
  destruct (filter plain_wordb ws) as [|w0 rest] eqn:E; [reflexivity|].
  apply opt_words_eqb_eq.
  assert (Hall : forall w, In w (w0 :: rest) -> plain_word w).
  { intros w Hw. rewrite <- E in Hw. apply filter_In in Hw. apply plain_wordb_ok. tauto. }
  destruct sp_tab_blank_run as [H1 [H2 H3]].
  apply parse_plain_split; [exact H2|apply Hall; left; reflexivity| |exact H3].
  apply Forall_forall. intros p Hp. apply in_map_iff in Hp. destruct Hp as [w [Hw1 Hw2]].
  subst p. simpl. split; [discriminate|]. split; [exact H1|]. apply Hall. right. exact Hw2.
Qed.

Lemma in_quote_after_app : forall a b q,
  in_quote_after (a ++ b) q = in_quote_after b (in_quote_after a q).
Proof. induction a as [|c a IH]; intros b q; [reflexivity|]. simpl. apply IH. Qed.

Lemma h_comment_go_true : forall st rest pre,
  h_comment_go st (pre ++ rest) (rev pre) rest (in_quote_after pre false) = true.
Proof.
  intros st rest. induction rest as [|c r IH]; intros pre; [reflexivity|].
  simpl h_comment_go. apply andb_true_iff. split.
  - destruct (is_comment c) eqn:Ec; [|reflexivity].
    destruct (in_quote_after pre false) eqn:Eq; [reflexivity|].
    simpl. apply opt_words_eqb_eq. rewrite rev_involutive.
    apply parse_comment; assumption.
  - replace (pre ++ c :: r) with ((pre ++ [c]) ++ r) by (rewrite <- app_assoc; reflexivity).
    replace (c :: rev pre) with (rev (pre ++ [c])) by (rewrite rev_app_distr; reflexivity).
    replace (if beq c ts_quote then negb (in_quote_after pre false) else in_quote_after pre false)
      with (in_quote_after (pre ++ [c]) false).
    2:{ rewrite in_quote_after_app. reflexivity. }
    apply IH.
Qed.

Lemma h_comment_true : forall st line, h_comment st line = true.
Proof. intros st line. exact (h_comment_go_true st line []). Qed.

Lemma h_expand_true : forall st line k v, h_expand st line k v = true.
Proof.
  intros st line k v. unfold h_expand. cbv zeta.
  set (st' := setenv k v st). set (pre := filter plain_byte line).
  assert (Hv : getenv st' k = v) by apply getenv_setenv_same.
  assert (Hpre : plain_chunk pre) by apply filter_forallb.
  destruct (plain_wordb cword && forallb plain_byte (dot :: pre) && no_alnum_headb (dot :: pre)) eqn:Elit.
  2:{ rewrite !andb_false_r. reflexivity. }
  apply andb_true_iff in Elit. destruct Elit as [Elit Hhead]. apply andb_true_iff in Elit.
  destruct Elit as [Hc Hpost]. apply plain_wordb_ok in Hc. apply no_alnum_headb_ok in Hhead.
  rewrite !andb_true_r.
  apply andb_true_iff. split; [apply andb_true_iff; split|].
  - destruct (valid_nameb k) eqn:Ek; [|reflexivity]. apply valid_nameb_ok in Ek.
    apply andb_true_iff. split; apply opt_words_eqb_eq.
    + exact (parse_expand_once st' cword pre k (dot :: pre) v Hc Hpre Hpost Hhead Ek Hv).
    + pose proof (parse_expand_once st' cword [] k [] v Hc eq_refl eq_refl I Ek Hv) as H.
      simpl app in H. rewrite !app_nil_r in H. exact H.
  - destruct (brace_wordb k) eqn:Ek; [|reflexivity]. apply brace_wordb_ok in Ek.
    destruct (is_nil_opt (strip_suffix ts_regex_suffix k)) eqn:Es; [|reflexivity].
    apply is_nil_opt_none in Es. simpl andb. cbv iota. apply opt_words_eqb_eq.
    exact (parse_expand_once_brace st' cword pre k (dot :: pre) v Hc Hpre Hpost Ek Es Hv).
  - destruct (brace_wordb k) eqn:Ek; [|reflexivity]. apply brace_wordb_ok in Ek.
    apply opt_words_eqb_eq.
    exact (parse_expand_regex st' cword pre k (dot :: pre) v Hc Hpre Hpost Ek Hv).
Qed.

Lemma not_assign_other : forall k a, split_kv a = None -> not_assign k a.
Proof. intros k a H k' v' H2. rewrite H in H2. discriminate. Qed.

Lemma h_env_true : forall st line k v, h_env st line k v = true.
Proof.
  intros st line k v. unfold h_env. apply andb_true_iff. split.
  - destruct (no_sepb k) eqn:Ek; [|reflexivity]. apply no_sepb_ok in Ek.
    apply andb_true_iff. split; apply bytes_eqb_eq.
    + exact (latest_wins st [line] k v [] Ek (Forall_nil _)).
    + exact (latest_wins st [k ++ ts_env_sep :: line] k v [] Ek (Forall_nil _)).
  - destruct (valid_nameb k && forallb plain_byte k && no_sepb k) eqn:E; [|reflexivity].
    apply andb_true_iff in E. destruct E as [E E3]. apply andb_true_iff in E. destruct E as [E1 E2].
    apply bytes_eqb_eq.
    rewrite (env_copy_at_assignment (setenv k v st) k k E2 (no_sepb_ok k E3) (valid_nameb_ok k E1)).
    apply getenv_setenv_same.
Qed.

Lemma h_child_true : forall st cd k v, h_child st cd k v = true.
Proof.
  intros st cd k v. unfold h_child. cbv zeta.
  set (st' := cmd_env [k ++ ts_env_sep :: v] st).
  destruct (child_env st' cd) as [l|] eqn:E; [|reflexivity].
  apply andb_true_iff. split.
  - apply opt_bytes_eqb_eq. exact (child_pwd st' cd l E).
  - destruct (regularb k) eqn:Ek; [|reflexivity]. apply regularb_ok in Ek.
    destruct (bytes_eqb k pwd_key) eqn:Ep; [reflexivity|]. apply bytes_eqb_false in Ep.
    destruct (bytes_eqb (getenv st' k) (or_empty (list_get (env_list st') k))) eqn:Ec; [|reflexivity].
    apply bytes_eqb_true in Ec. simpl andb. cbv iota. apply bytes_eqb_eq.
    rewrite (child_sees_list st' cd k l Ek Ep E). symmetry. exact Ec.
Qed.

Lemma h_regex_true : forall v, h_regex v = true.
Proof.
  intros v. unfold h_regex. destruct (utf8_ok v) eqn:E; [|reflexivity].
  apply opt_bytes_eqb_eq. apply quote_meta_literal. exact E.
Qed.

Lemma names_ab : [x61] <> [x62].
Proof. discriminate. Qed.

Lemma h_cmp_true : forall st line k v, h_cmp st line k v = true.
Proof.
  intros st line k v. unfold h_cmp. cbv zeta.
  set (st' := setenv k v st). set (pre := filter (fun c => negb (beq c dollar)) line).
  assert (Hpre : no_dollar pre) by apply filter_forallb.
  apply andb_true_iff. split; [apply andb_true_iff; split|].
  - destruct (valid_nameb k && no_dollarb (dot :: pre) && no_alnum_headb (dot :: pre)) eqn:E; [|reflexivity].
    apply andb_true_iff in E. destruct E as [E E3]. apply andb_true_iff in E. destruct E as [E1 E2].
    apply (cmpenv_value_not_reexpanded st' [x61] [x62] pre k (dot :: pre) v names_ab Hpre E2
             (no_alnum_headb_ok _ E3) (valid_nameb_ok k E1)).
    apply getenv_setenv_same.
  - apply (cmp_no_expand st' [x61] [x62] line line names_ab). reflexivity.
  - rewrite (cmp_negated st' false [x61] [x62] line line names_ab). rewrite negb_involutive.
    apply (cmp_no_expand st' [x61] [x62] line line names_ab). reflexivity.
Qed.

(* the boolean form of the statements holds on every input *)
Theorem c02_holds_on_true : forall st cd line k v, c02_holds_on st cd line k v = true.
Proof.
  intros st cd line k v. unfold c02_holds_on.
  rewrite h_syntax_true, h_quote_true, h_plain_true, h_comment_true, h_expand_true, h_env_true,
    h_child_true, h_regex_true, h_cmp_true. reflexivity.
Qed.

(* it is not vacuous: every guarded instance is reached on this input *)
From Coq Require Import String.
Example holds_guards_reached :
  let k := bs "K"%string in
  let line := bs "args pre $K 'q' # tail"%string in
  valid_nameb k = true /\ brace_wordb k = true /\ regularb k = true /\ no_sepb k = true /\
  plain_wordb cword = true /\ no_alnum_headb (dot :: filter plain_byte line) = true /\
  forallb plain_byte (dot :: filter plain_byte line) = true /\
  c02_holds_on (setup_env [bs "WORK=/w"%string]) (bs "/w"%string) line k (bs "v $K 'x' #"%string) = true.
Proof. vm_compute. repeat split. Qed.

(* C02 — the shapes of the Go functions the model was written against.  Definitions only.
   Each string is the structural fingerprint (harness/cmd/genconsts/gen_tsparse_shape.go) of the
   function at the time parse_go / expand_key / do_cmd_cmp of TsParse.v were written and compared
   with it statement by statement:
     B = a separator character that is not a comment character, C = a comment character,
     Q = the quote character, S = a string literal.
   TsParseFacts.v proves that the fingerprints regenerated from the current source
   (Gen/TsParseConsts.v) are these; a restructured function re-opens that proof. *)
From Coq Require Import List String.
From Coq.Strings Require Import Byte.

(* (TestScript).parse — modelled by parse_go: the separator test comes first and only when not
   quoted; a pending chunk is expanded, appended and reset there; the end of line and the comment
   character leave the loop; the end of line inside quotes is fatal; the quote test follows with
   its three cases (open: expand the pending chunk; doubled: copy without expansion, the new chunk
   starts at the second quote, which is skipped; close: copy without expansion); any other
   character only opens a chunk *)
Definition parse_go_shape : list byte := list_byte_of_string
  "ts.line=line;var(args:[]string,arg:string,start=-1,quoted=false);for(i:=0;;i++){if(!quoted&&(i>=len(line)||line[i]==B||line[i]==C)){if(start>=0){arg+=ts.expand(line[start:i]);args=append(args,arg);start=-1;arg=S;}if(i>=len(line)||line[i]==C){break;}continue;}if(i>=len(line)){ts.Fatalf(S);}if(line[i]==Q){if(!quoted){if(start>=0){arg+=ts.expand(line[start:i]);}start=i+1;quoted=true;continue;}if(i+1<len(line)&&line[i+1]==Q){arg+=line[start:i];start=i+1;i++;continue;}arg+=line[start:i];start=i+1;quoted=false;continue;}if(start<0){start=i;}}return args;".

(* (TestScript).expand — modelled by expand / expand_key *)
Definition expand_shape : list byte := list_byte_of_string
  "return os.Expand(s,func(key){if(key1:=strings.TrimSuffix(key,S);len(key1)!=len(key)){return regexp.QuoteMeta(ts.Getenv(key1));}return ts.Getenv(key);});".

(* (TestScript).doCmdCmp — modelled by do_cmd_cmp (UpdateScripts off) *)
Definition cmp_shape : list byte := list_byte_of_string
  "name1,name2:=args[0],args[1];if(name1==name2){ts.Fatalf(S);}text1:=ts.ReadFile(name1);absName2:=ts.MkAbs(name2);data,err:=os.ReadFile(absName2);ts.Check(err);text2:=string(data);if(env){text2=ts.expand(text2);}eq:=text1==text2;if(neg){if(eq){ts.Fatalf(S,name1,name2);}return ;}if(eq){return ;}if(ts.params.UpdateScripts&&!env){if(scriptFile,ok:=ts.scriptFiles[filepath.Clean(absName2)];ok){ts.scriptUpdates[scriptFile]=text1;return ;}}unifiedDiff:=diff.Diff(name1,[]byte(text1),name2,[]byte(text2));ts.Logf(S,unifiedDiff);ts.Fatalf(S,name1,name2);".

(* ---- the script level (TsParse/TsScript.v)

   the line loop of (TestScript).run, reduced by gen_tsparse_shape.go to what script_lines /
   run_lines mirror: the script is consumed while it is not empty; the next line is the text up to
   the first line terminator, which is dropped, or the whole rest when there is none; a line with
   the phase prefix is logged and skipped (the tokenizer would find no word in it either); every
   other line goes to runLine.  "..." stands for the bookkeeping of group TsRun. *)
Definition runloop_shape : list byte := list_byte_of_string
  "for(;script!=S;){ts.lineno++;var(line:string);if(i:=strings.Index(script,S);i>=0){line,script=script[:i],script[i+1:];}else{line,script=script,S;}if(strings.HasPrefix(line,S)){...continue;}ok:=ts.runLine(line);...}".

(* (TestScript).cmdEnv — modelled by cmd_env / cmd_env_arg (arguments) and env_listing (no
   argument: nothing but ts.Logf happens, the list is only read) *)
Definition cmdenv_shape : list byte := list_byte_of_string
  "if(neg){ts.Fatalf(S);}if(len(args)==0){printed:=make(map[string]bool);for(_,kv:=range ts.env){k:=envvarname(kv[:strings.Index(kv,S)]);if(!printed[k]){printed[k]=true;ts.Logf(S,k,ts.envMap[k]);}}return ;}for(_,env:=range args){i:=strings.Index(env,S);if(i<0){ts.Logf(S,env,ts.Getenv(env));continue;}ts.Setenv(env[:i],env[i+1:]);}".

(* (TestScript).Setenv — setenv; (TestScript).Getenv — getenv; (TestScript).setEnv — setup_env *)
Definition setenv_shape : list byte := list_byte_of_string
  "ts.env=append(ts.env,key+S+value);ts.envMap[envvarname(key)]=value;".
Definition getenv_shape : list byte := list_byte_of_string
  "return ts.envMap[envvarname(key)];".
Definition setenvall_shape : list byte := list_byte_of_string
  "ts.env=vars;ts.envMap=make(map[string]string);for(_,kv:=range ts.env){if(i:=strings.Index(kv,S);i>=0){ts.envMap[envvarname(kv[:i])]=kv[i+1:];}}".

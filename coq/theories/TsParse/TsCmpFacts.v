(* C02 — cmpenv expands its second file exactly once (cmp expands nothing), expansion of a text,
   and env K=$OTHER chains (the value is taken at assignment time). *)
From Coq Require Import List Bool Arith NArith Lia.
From Coq.Strings Require Import Byte.
From GI Require Import Lib.Bytes Gen.TsParseConsts TsParse.TsParse TsParse.TsSpec
  TsParse.TsParseFacts TsParse.TsEnvFacts.
Import ListNotations.
Local Notation bytes := (list byte) (only parsing).

(* ------------------------------------------------------------------ expansion of a text (not tokenized:
   pre and post may hold blanks, quotes, comment characters, newlines) *)

Theorem expand_text_var : forall st pre k post,
  no_dollar pre -> valid_name k -> no_alnum_head post ->
  expand st (pre ++ dollar :: k ++ post) = pre ++ getenv st k ++ expand st post.
Proof.
  intros st pre k post Hpre Hk Hpost. unfold expand, os_expand.
  rewrite (expand_go_plain_prefix _ pre _ Hpre), (expand_go_var _ k post Hk Hpost).
  destruct Hk as [_ [Hal _]]. rewrite (expand_key_plain st k (alnum_no_suffix k Hal)). reflexivity.
Qed.

Theorem expand_text_brace : forall st pre k post,
  no_dollar pre -> brace_ok k -> strip_suffix ts_regex_suffix k = None ->
  expand st (pre ++ dollar :: lbrace :: k ++ rbrace :: post) = pre ++ getenv st k ++ expand st post.
Proof.
  intros st pre k post Hpre Hk Hns. unfold expand, os_expand.
  rewrite (expand_go_plain_prefix _ pre _ Hpre), (expand_go_brace _ k post Hk).
  rewrite (expand_key_plain st k Hns). reflexivity.
Qed.

Theorem expand_text_regex : forall st pre k post,
  no_dollar pre -> brace_ok k ->
  expand st (pre ++ dollar :: lbrace :: (k ++ ts_regex_suffix) ++ rbrace :: post)
  = pre ++ quote_meta (getenv st k) ++ expand st post.
Proof.
  intros st pre k post Hpre [Hkne Hkb]. unfold expand, os_expand.
  assert (Hbk : brace_ok (k ++ ts_regex_suffix)).
  { split; [destruct k; [contradiction Hkne; reflexivity|discriminate]|].
    apply index_byte_app_none; [exact Hkb|exact (proj2 suffix_facts)]. }
  rewrite (expand_go_plain_prefix _ pre _ Hpre), (expand_go_brace _ (k ++ ts_regex_suffix) post Hbk).
  rewrite expand_key_regex. reflexivity.
Qed.

Theorem expand_text_plain : forall st t, no_dollar t -> expand st t = t.
Proof. exact expand_plain. Qed.

(* ------------------------------------------------------------------ cmp / cmpenv *)

Lemma bytes_eqb_iff : forall a b, bytes_eqb a b = true <-> a = b.
Proof. intros a b. split; [apply bytes_eqb_true|intros; subst; apply bytes_eqb_refl]. Qed.

(* cmpenv file1 file2 succeeds exactly when file1 is the one-pass expansion of file2;
   file1 is taken as it is *)
Theorem cmpenv_expands_once : forall st name1 name2 text1 text2,
  name1 <> name2 ->
  (do_cmd_cmp st false true name1 name2 text1 text2 = true <-> text1 = expand st text2).
Proof.
  intros st n1 n2 t1 t2 Hn. unfold do_cmd_cmp. rewrite (bytes_eqb_neq n1 n2 Hn). apply bytes_eqb_iff.
Qed.

(* cmp expands neither file: the outcome does not depend on the environment *)
Theorem cmp_no_expand : forall st name1 name2 text1 text2,
  name1 <> name2 ->
  (do_cmd_cmp st false false name1 name2 text1 text2 = true <-> text1 = text2).
Proof.
  intros st n1 n2 t1 t2 Hn. unfold do_cmd_cmp. rewrite (bytes_eqb_neq n1 n2 Hn). apply bytes_eqb_iff.
Qed.

Theorem cmp_negated : forall st env name1 name2 text1 text2,
  name1 <> name2 ->
  do_cmd_cmp st true env name1 name2 text1 text2 = negb (do_cmd_cmp st false env name1 name2 text1 text2).
Proof. intros st env n1 n2 t1 t2 Hn. unfold do_cmd_cmp. rewrite (bytes_eqb_neq n1 n2 Hn). reflexivity. Qed.

Theorem cmp_same_name_fails : forall st neg env name text1 text2,
  do_cmd_cmp st neg env name name text1 text2 = false.
Proof. intros. unfold do_cmd_cmp. rewrite bytes_eqb_refl. reflexivity. Qed.

(* a value is not expanded again, whatever it holds: the text pre $k post matches pre v post *)
Theorem cmpenv_value_not_reexpanded : forall st name1 name2 pre k post v,
  name1 <> name2 -> no_dollar pre -> no_dollar post -> no_alnum_head post ->
  valid_name k -> getenv st k = v ->
  do_cmd_cmp st false true name1 name2 (pre ++ v ++ post) (pre ++ dollar :: k ++ post) = true.
Proof.
  intros st n1 n2 pre k post v Hn Hpre Hpost Hhead Hk Hv.
  apply (cmpenv_expands_once st n1 n2 _ _ Hn).
  rewrite (expand_text_var st pre k post Hpre Hk Hhead), Hv, (expand_plain st post Hpost). reflexivity.
Qed.

(* ------------------------------------------------------------------ env K=$OTHER: the value is taken when the
   line runs *)

Lemma env_cmd_plain : plain_word ts_env_cmd /\ plain_byte ts_env_sep = true.
Proof. split; [split; [discriminate|reflexivity]|reflexivity]. Qed.

Lemma forallb_app_single : forall (p : byte -> bool) a c,
  forallb p a = true -> p c = true -> forallb p (a ++ [c]) = true.
Proof. intros p a c Ha Hc. rewrite forallb_app, Ha. simpl. rewrite Hc. reflexivity. Qed.

(* the line  env k=$o  leaves k bound to the value o has at that moment *)
Theorem env_copy_at_assignment : forall st k o,
  plain_chunk k -> no_sep k -> valid_name o ->
  getenv (fst (ts_step st (ts_env_cmd ++ SP :: k ++ ts_env_sep :: dollar :: o))) k = getenv st o.
Proof.
  intros st k o Hk Hns Ho. unfold ts_step.
  destruct env_cmd_plain as [Hcmd Hsep].
  replace (ts_env_cmd ++ SP :: k ++ ts_env_sep :: dollar :: o)
    with (ts_env_cmd ++ SP :: (k ++ [ts_env_sep]) ++ dollar :: o ++ []).
  2:{ rewrite app_nil_r, <- app_assoc. reflexivity. }
  rewrite (parse_expand_once st ts_env_cmd (k ++ [ts_env_sep]) o [] (getenv st o) Hcmd
             (forallb_app_single plain_byte k ts_env_sep Hk Hsep) eq_refl I Ho eq_refl).
  rewrite bytes_eqb_refl. simpl fst. rewrite app_nil_r, <- app_assoc. simpl app.
  exact (latest_wins st [] k (getenv st o) [] Hns (Forall_nil _)).
Qed.

(* ... and later assignments to o (or to anything but k) do not change it *)
Theorem env_chain_snapshot : forall st k o later,
  plain_chunk k -> no_sep k -> valid_name o -> Forall (not_assign k) later ->
  getenv (cmd_env later (fst (ts_step st (ts_env_cmd ++ SP :: k ++ ts_env_sep :: dollar :: o)))) k
  = getenv st o.
Proof.
  intros st k o later Hk Hns Ho Hl.
  rewrite (unassigned_keeps later _ k Hl). exact (env_copy_at_assignment st k o Hk Hns Ho).
Qed.

(* ------------------------------------------------------------------ examples *)

From Coq Require Import String.

Example cmpenv_ex :
  let st := cmd_env [bs "A=has $B and ${B} and ${B@R}"%string; bs "B=never"%string] (setup_env []) in
  let text2 := bs "first line 'quoted' # not a comment"%string ++ [NL] ++ bs "value: $A."%string ++ [NL] in
  let text1 := bs "first line 'quoted' # not a comment"%string ++ [NL] ++ bs "value: has $B and ${B} and ${B@R}."%string ++ [NL] in
  do_cmd_cmp st false true (bs "out"%string) (bs "want"%string) text1 text2 = true /\
  do_cmd_cmp st false false (bs "out"%string) (bs "want"%string) text1 text2 = false /\
  do_cmd_cmp st false false (bs "out"%string) (bs "want"%string) text2 text2 = true /\
  do_cmd_cmp st false true (bs "out"%string) (bs "want"%string) text2 text2 = false /\
  do_cmd_cmp st true true (bs "out"%string) (bs "want"%string) text2 text2 = true.
Proof. vm_compute. repeat split. Qed.

Example env_chain_ex :
  let st0 := cmd_env [bs "O=first $O"%string] (setup_env []) in
  let st1 := fst (ts_step st0 (bs "env K=$O"%string)) in
  let st2 := fst (ts_step st1 (bs "env O=second"%string)) in
  plain_chunk (bs "K"%string) /\ no_sep (bs "K"%string) /\ valid_name (bs "O"%string) /\
  getenv st2 (bs "K"%string) = bs "first $O"%string /\ getenv st2 (bs "O"%string) = bs "second"%string /\
  ts_parse st2 (bs "args $K"%string) = Some [bs "args"%string; bs "first $O"%string].
Proof. vm_compute. repeat split; discriminate. Qed.

(* C02 — the environment: the lookup map agrees with the KEY=VALUE list, the latest assignment
   wins, and a child process sees the same values as the script. *)
From Coq Require Import List Bool Arith NArith Lia.
From Coq.Strings Require Import Byte.
From GI Require Import Lib.Bytes Gen.TsParseConsts TsParse.TsParse TsParse.TsSpec TsParse.TsParseFacts.
Import ListNotations.
Local Notation bytes := (list byte) (only parsing).

(* ------------------------------------------------------------------ the specification: last binding in the list *)


(* ts.envMap agrees with ts.env *)
Definition consistent (st : ts_env) : Prop :=
  forall k, getenv st k = or_empty (list_get (env_list st) k).

Definition no_sep (k : bytes) : Prop := index_byte ts_env_sep k = None.

(* ------------------------------------------------------------------ split_kv *)

Lemma skipn_S_length_app : forall (k : bytes) c v, skipn (S (length k)) (k ++ c :: v) = v.
Proof. intros k c v. induction k as [|x k IH]; [reflexivity|exact IH]. Qed.

Lemma split_kv_build : forall k v, no_sep k -> split_kv (k ++ ts_env_sep :: v) = Some (k, v).
Proof.
  intros k v H. unfold split_kv. rewrite (index_byte_app_notin ts_env_sep k v H).
  rewrite firstn_length_app, skipn_S_length_app. reflexivity.
Qed.

Lemma split_kv_inv : forall a k v,
  split_kv a = Some (k, v) -> a = k ++ ts_env_sep :: v /\ no_sep k.
Proof.
  intros a k v H. unfold split_kv in H.
  destruct (index_byte ts_env_sep a) as [i|] eqn:E; [|discriminate].
  injection H as H1 H2. destruct (index_byte_some _ _ _ E) as [H3 [H4 _]].
  subst k v. split; [exact H3|exact H4].
Qed.

Lemma list_get_app : forall a b k,
  list_get (a ++ b) k = match list_get b k with Some v => Some v | None => list_get a k end.
Proof.
  intros a b k. induction a as [|x a IH]; simpl.
  - destruct (list_get b k); reflexivity.
  - rewrite IH. destruct (list_get b k); reflexivity.
Qed.

Lemma list_get_single : forall kv k,
  list_get [kv] k = match split_kv kv with
                    | Some (k', v) => if bytes_eqb k' k then Some v else None
                    | None => None
                    end.
Proof. reflexivity. Qed.

(* ------------------------------------------------------------------ the map *)

Lemma map_get_set_same : forall m k v, map_get (map_set k v m) k = v.
Proof. intros. simpl. rewrite bytes_eqb_refl. reflexivity. Qed.

Lemma map_get_set_other : forall m k k' v, k' <> k -> map_get (map_set k' v m) k = map_get m k.
Proof. intros. simpl. rewrite (bytes_eqb_neq k' k) by assumption. reflexivity. Qed.

Lemma getenv_setenv_same : forall st k v, getenv (setenv k v st) k = v.
Proof. intros. unfold getenv, setenv. simpl env_map. apply map_get_set_same. Qed.

Lemma getenv_setenv_other : forall st k k' v, k' <> k -> getenv (setenv k' v st) k = getenv st k.
Proof. intros. unfold getenv, setenv. simpl env_map. apply map_get_set_other. assumption. Qed.

Lemma setup_map_spec : forall vars m0 k,
  map_get (fold_left (fun m kv => match split_kv kv with
                                  | Some (k, v) => map_set k v m
                                  | None => m
                                  end) vars m0) k
  = match list_get vars k with Some v => v | None => map_get m0 k end.
Proof.
  induction vars as [|kv vars IH]; intros m0 k; [reflexivity|].
  simpl fold_left. rewrite IH. simpl list_get.
  destruct (list_get vars k); [reflexivity|].
  destruct (split_kv kv) as [[k' v]|]; [|reflexivity].
  simpl. destruct (bytes_eqb k' k); reflexivity.
Qed.

Theorem setup_consistent : forall vars, consistent (setup_env vars).
Proof.
  intros vars k. unfold getenv, setup_env, setup_map. simpl env_map. simpl env_list.
  rewrite setup_map_spec. destruct (list_get vars k); reflexivity.
Qed.

Theorem setenv_consistent : forall st k v,
  no_sep k -> consistent st -> consistent (setenv k v st).
Proof.
  intros st k v Hk Hc k0. unfold setenv at 2. simpl env_list.
  rewrite list_get_app, list_get_single, (split_kv_build k v Hk).
  destruct (bytes_eqb k k0) eqn:E.
  - apply bytes_eqb_true in E. subst k0. rewrite getenv_setenv_same. reflexivity.
  - apply bytes_eqb_false in E. rewrite (getenv_setenv_other st k0 k v E). apply Hc.
Qed.

Lemma cmd_env_arg_consistent : forall st a, consistent st -> consistent (cmd_env_arg st a).
Proof.
  intros st a Hc. unfold cmd_env_arg. destruct (split_kv a) as [[k v]|] eqn:E; [|exact Hc].
  apply setenv_consistent; [|exact Hc]. exact (proj2 (split_kv_inv a k v E)).
Qed.

Theorem cmd_env_consistent : forall args st, consistent st -> consistent (cmd_env args st).
Proof.
  induction args as [|a args IH]; intros st Hc; [exact Hc|].
  simpl. apply IH. apply cmd_env_arg_consistent. exact Hc.
Qed.

(* a sequence of env commands is one env command with all the arguments *)
Theorem cmd_env_app : forall a b st, cmd_env (a ++ b) st = cmd_env b (cmd_env a st).
Proof. intros. unfold cmd_env. apply fold_left_app. Qed.

Theorem cmd_env_seq : forall cmds st,
  fold_left (fun s args => cmd_env args s) cmds st = cmd_env (concat cmds) st.
Proof.
  induction cmds as [|c cmds IH]; intros st; [reflexivity|].
  simpl. rewrite IH, cmd_env_app. reflexivity.
Qed.

(* every state a script can reach with env commands agrees with its list *)
Theorem reachable_consistent : forall vars cmds,
  consistent (fold_left (fun s args => cmd_env args s) cmds (setup_env vars)).
Proof. intros. rewrite cmd_env_seq. apply cmd_env_consistent. apply setup_consistent. Qed.

(* ------------------------------------------------------------------ latest_wins *)

(* the argument does not assign k *)
Definition not_assign (k a : bytes) : Prop :=
  forall k' v', split_kv a = Some (k', v') -> k' <> k.

Theorem unassigned_keeps : forall args st k,
  Forall (not_assign k) args -> getenv (cmd_env args st) k = getenv st k.
Proof.
  induction args as [|a args IH]; intros st k H; [reflexivity|].
  inversion H as [|x l Ha Hargs]; subst. simpl. rewrite (IH _ k Hargs).
  unfold cmd_env_arg. destruct (split_kv a) as [[k' v']|] eqn:E; [|reflexivity].
  apply getenv_setenv_other. exact (Ha k' v' E).
Qed.

Theorem latest_wins : forall st pre k v post,
  no_sep k -> Forall (not_assign k) post ->
  getenv (cmd_env (pre ++ (k ++ ts_env_sep :: v) :: post) st) k = v.
Proof.
  intros st pre k v post Hk Hpost.
  rewrite cmd_env_app. simpl. rewrite (unassigned_keeps post _ k Hpost).
  unfold cmd_env_arg. rewrite (split_kv_build k v Hk). apply getenv_setenv_same.
Qed.

(* ------------------------------------------------------------------ child_env *)

Lemma env_sep_is_eq : ts_env_sep = eq_byte.
Proof. reflexivity. Qed.

Lemma pwd_entry : split_kv ts_pwd_prefix = Some (pwd_key, []).
Proof. reflexivity. Qed.

Lemma pwd_prefix_nul : mem_byte nul_byte ts_pwd_prefix = false.
Proof. reflexivity. Qed.

(* entries seen through the first "=" *)
Definition has_key1 (k kv : bytes) : bool :=
  match index_byte eq_byte kv with
  | Some i => bytes_eqb (firstn i kv) k
  | None => false
  end.
Definition val1 (kv : bytes) : bytes :=
  match index_byte eq_byte kv with
  | Some i => skipn (S i) kv
  | None => []
  end.
Definition matches (k : bytes) (l : list bytes) : list bytes := filter (has_key1 k) l.

Lemma child_lookup_matches : forall k l,
  child_lookup k l = match matches k l with kv :: _ => Some (val1 kv) | [] => None end.
Proof.
  intros k l. induction l as [|kv l IH]; [reflexivity|].
  unfold matches. cbn [filter child_lookup]. unfold has_key1 at 1.
  destruct (index_byte eq_byte kv) as [i|] eqn:E; [|exact IH].
  destruct (bytes_eqb (firstn i kv) k); [|exact IH].
  unfold val1. rewrite E. reflexivity.
Qed.

(* a regular name: non-empty, without "=" *)
Definition regular (k : bytes) : Prop := k <> [] /\ index_byte eq_byte k = None.

Lemma firstn_S_head : forall (kv : bytes) j c, hd_error kv = Some c -> In c (firstn (S j) kv).
Proof. intros [|x kv] j c H; simpl in H; [discriminate|]. injection H as H. subst. left. reflexivity. Qed.

(* for a regular name the key os/exec uses for de-duplication is the key getenv uses *)
Lemma dedup_key_regular : forall k kv,
  regular k -> (dedup_key kv = Some k <-> has_key1 k kv = true).
Proof.
  intros k kv [Hne Hnoeq]. unfold dedup_key, has_key1.
  destruct (index_byte eq_byte kv) as [i|] eqn:E.
  - destruct i as [|i].
    + (* leading "=" *)
      simpl firstn. split.
      * intros H. exfalso.
        destruct kv as [|c kv]; [discriminate|]. simpl in E.
        destruct (beq c eq_byte) eqn:Ec.
        2:{ destruct (index_byte eq_byte kv); discriminate. }
        apply beq_true in Ec. subst c. simpl tl in H.
        destruct (index_byte eq_byte kv) as [j|].
        -- injection H as H. apply index_byte_none_notin in Hnoeq. apply Hnoeq.
           rewrite <- H. left. reflexivity.
        -- injection H as H. apply Hne. symmetry. exact H.
      * intros H. exfalso. apply bytes_eqb_true in H. apply Hne. symmetry. exact H.
    + split.
      * intros H. injection H as H. subst k. apply bytes_eqb_refl.
      * intros H. apply bytes_eqb_true in H. subst k. reflexivity.
  - split; discriminate.
Qed.

Lemma mem_bytes_true : forall k l, mem_bytes k l = true <-> In k l.
Proof.
  intros k l. induction l as [|x l IH]; simpl; [split; [discriminate|intros []]|].
  rewrite orb_true_iff, IH. split.
  - intros [H|H]; [left; apply bytes_eqb_true; exact H|right; exact H].
  - intros [H|H]; [left; subst; apply bytes_eqb_refl|right; exact H].
Qed.

Lemma mem_bytes_cons_other : forall k k0 saw, k0 <> k -> mem_bytes k (k0 :: saw) = mem_bytes k saw.
Proof. intros. simpl. rewrite (bytes_eqb_neq k0 k) by assumption. reflexivity. Qed.

(* de-duplication keeps, for a regular name, exactly the first entry in processing order *)
Lemma dedup_rev_matches : forall k r saw,
  regular k ->
  matches k (dedup_rev r saw) = if mem_bytes k saw then [] else firstn 1 (matches k r).
Proof.
  intros k r. induction r as [|kv r IH]; intros saw Hk.
  - simpl. destruct (mem_bytes k saw); reflexivity.
  - simpl dedup_rev. destruct (dedup_key kv) as [k0|] eqn:E.
    + destruct (bytes_eqb k0 k) eqn:Ek.
      * apply bytes_eqb_true in Ek. subst k0.
        assert (Hm : has_key1 k kv = true) by (apply (dedup_key_regular k kv Hk); exact E).
        destruct (mem_bytes k saw) eqn:Es.
        -- rewrite IH by exact Hk. rewrite Es. reflexivity.
        -- unfold matches. simpl filter. rewrite Hm. fold (matches k (dedup_rev r (k :: saw))).
           rewrite IH by exact Hk. simpl mem_bytes. rewrite bytes_eqb_refl. reflexivity.
      * apply bytes_eqb_false in Ek.
        assert (Hm : has_key1 k kv = false).
        { destruct (has_key1 k kv) eqn:Em; [|reflexivity].
          apply (dedup_key_regular k kv Hk) in Em. rewrite E in Em. injection Em as Em. contradiction. }
        destruct (mem_bytes k0 saw).
        -- rewrite IH by exact Hk. unfold matches at 2. simpl filter. rewrite Hm. reflexivity.
        -- unfold matches at 1. simpl filter. rewrite Hm. fold (matches k (dedup_rev r (k0 :: saw))).
           rewrite IH by exact Hk. rewrite (mem_bytes_cons_other k k0 saw Ek).
           unfold matches at 2. simpl filter. rewrite Hm. reflexivity.
    + assert (Hm : has_key1 k kv = false).
      { destruct (has_key1 k kv) eqn:Em; [|reflexivity].
        apply (dedup_key_regular k kv Hk) in Em. rewrite E in Em. discriminate. }
      destruct (is_nil kv).
      * rewrite IH by exact Hk. unfold matches at 2. simpl filter. rewrite Hm. reflexivity.
      * unfold matches at 1. simpl filter. rewrite Hm. fold (matches k (dedup_rev r saw)).
        rewrite IH by exact Hk. unfold matches at 2. simpl filter. rewrite Hm. reflexivity.
Qed.

Lemma filter_rev' : forall (f : bytes -> bool) l, filter f (rev l) = rev (filter f l).
Proof.
  intros f l. induction l as [|x l IH]; [reflexivity|].
  simpl. rewrite filter_app, IH. simpl. destruct (f x); [reflexivity|apply app_nil_r].
Qed.

Lemma firstn1_rev : forall (l : list bytes), rev (firstn 1 l) = firstn 1 l.
Proof. intros [|x l]; reflexivity. Qed.

Lemma child_lookup_firstn1 : forall k l,
  match firstn 1 (matches k l) with kv :: _ => Some (val1 kv) | [] => None end = child_lookup k l.
Proof. intros k l. rewrite child_lookup_matches. destruct (matches k l); reflexivity. Qed.

(* first match of the de-duplicated list = first match of the reversed input *)
Lemma child_lookup_dedup : forall k env,
  regular k ->
  child_lookup k (rev (dedup_rev (rev env) [])) = child_lookup k (rev env).
Proof.
  intros k env Hk. rewrite child_lookup_matches. unfold matches at 1.
  rewrite filter_rev'. fold (matches k (dedup_rev (rev env) [])).
  rewrite (dedup_rev_matches k (rev env) [] Hk). simpl mem_bytes. cbv iota.
  rewrite firstn1_rev. apply child_lookup_firstn1.
Qed.

Lemma child_lookup_app : forall k a b,
  child_lookup k (a ++ b) = match child_lookup k a with Some v => Some v | None => child_lookup k b end.
Proof.
  intros k a b. induction a as [|x a IH]; [reflexivity|].
  simpl. destruct (index_byte eq_byte x) as [i|]; [|exact IH].
  destruct (bytes_eqb (firstn i x) k); [reflexivity|exact IH].
Qed.

(* the last binding of the list is the first match of the reversed list *)
Lemma list_get_rev : forall env k, list_get env k = child_lookup k (rev env).
Proof.
  intros env k. induction env as [|kv env IH]; [reflexivity|].
  simpl rev. rewrite child_lookup_app, <- IH. simpl list_get.
  destruct (list_get env k); [reflexivity|].
  unfold split_kv. rewrite env_sep_is_eq. simpl child_lookup.
  destruct (index_byte eq_byte kv) as [i|]; [|reflexivity].
  destruct (bytes_eqb (firstn i kv) k); reflexivity.
Qed.

Lemma pwd_entry_split : forall cd, split_kv (ts_pwd_prefix ++ cd) = Some (pwd_key, cd).
Proof.
  intros cd. pose proof pwd_entry as P. destruct (split_kv_inv _ _ _ P) as [P1 P2].
  rewrite P1. rewrite <- app_assoc. change ([ts_env_sep] ++ cd) with (ts_env_sep :: cd).
  apply split_kv_build. exact P2.
Qed.

Lemma list_get_pwd_entry : forall cd k,
  k <> pwd_key -> list_get [ts_pwd_prefix ++ cd] k = None.
Proof.
  intros cd k Hk. rewrite list_get_single.
  pose proof (pwd_entry_split cd) as H.
  rewrite H. rewrite (bytes_eqb_neq pwd_key k); [reflexivity|]. intros E. apply Hk. symmetry. exact E.
Qed.

Lemma regular_env_sep : forall k, regular k -> no_sep k.
Proof. intros k [_ H]. unfold no_sep. rewrite env_sep_is_eq. exact H. Qed.

(* what the child finds under a regular name other than PWD is the last binding of the list *)
Theorem child_sees_list : forall st cd k l,
  regular k -> k <> pwd_key ->
  child_env st cd = Some l ->
  child_lookup k l = list_get (env_list st) k.
Proof.
  intros st cd k l Hk Hpwd H. unfold child_env, dedup_env in H.
  remember (ts_pwd_prefix ++ cd) as e eqn:Ee.
  destruct (existsb (mem_byte nul_byte) (env_list st ++ [e])); [discriminate|].
  injection H as H. subst l. rewrite (child_lookup_dedup k _ Hk).
  rewrite <- list_get_rev. rewrite list_get_app. subst e.
  rewrite (list_get_pwd_entry cd k Hpwd). reflexivity.
Qed.

(* scripts and children see the same value *)
Theorem child_env_agrees : forall st cd k l,
  consistent st -> regular k -> k <> pwd_key ->
  child_env st cd = Some l ->
  or_empty (child_lookup k l) = getenv st k.
Proof.
  intros st cd k l Hc Hk Hpwd H. rewrite (child_sees_list st cd k l Hk Hpwd H). symmetry. apply Hc.
Qed.

(* ... in every state a script reaches from its initial variables through env commands *)
Theorem child_env_agrees_reachable : forall vars cmds cd k l,
  regular k -> k <> pwd_key ->
  child_env (fold_left (fun s args => cmd_env args s) cmds (setup_env vars)) cd = Some l ->
  or_empty (child_lookup k l) = getenv (fold_left (fun s args => cmd_env args s) cmds (setup_env vars)) k.
Proof.
  intros vars cmds cd k l Hk Hpwd H.
  exact (child_env_agrees _ cd k l (reachable_consistent vars cmds) Hk Hpwd H).
Qed.

(* PWD is the script's current directory *)
Theorem child_pwd : forall st cd l,
  child_env st cd = Some l -> child_lookup pwd_key l = Some cd.
Proof.
  intros st cd l H. assert (Hk : regular pwd_key) by (split; [discriminate|reflexivity]). unfold child_env, dedup_env in H.
  remember (ts_pwd_prefix ++ cd) as e eqn:Ee.
  destruct (existsb (mem_byte nul_byte) (env_list st ++ [e])); [discriminate|].
  injection H as H. subst l. rewrite (child_lookup_dedup pwd_key _ Hk).
  rewrite <- list_get_rev. rewrite list_get_app, list_get_single. subst e.
  pose proof (pwd_entry_split cd) as Hs.
  rewrite Hs, bytes_eqb_refl. reflexivity.
Qed.

Lemma pwd_key_regular : regular pwd_key.
Proof. split; [discriminate|reflexivity]. Qed.

(* the child is started exactly when no entry holds a NUL byte *)
Theorem child_env_defined : forall st cd,
  (exists l, child_env st cd = Some l) <->
  (forall e, In e (env_list st) -> ~ In nul_byte e) /\ ~ In nul_byte cd.
Proof.
  intros st cd. unfold child_env, dedup_env.
  destruct (existsb (mem_byte nul_byte) (env_list st ++ [ts_pwd_prefix ++ cd])) eqn:E.
  - split; [intros [l H]; discriminate|]. intros [H1 H2]. exfalso.
    apply existsb_exists in E. destruct E as [e [He Hn]]. apply mem_byte_in in Hn.
    apply in_app_or in He. destruct He as [He|[He|[]]].
    + exact (H1 e He Hn).
    + subst e. apply in_app_or in Hn. destruct Hn as [Hn|Hn]; [|exact (H2 Hn)].
      apply in_mem_byte in Hn. rewrite pwd_prefix_nul in Hn. discriminate.
  - split; [|intros _; eexists; reflexivity]. intros _.
    assert (Hall : forall e, In e (env_list st ++ [ts_pwd_prefix ++ cd]) -> ~ In nul_byte e).
    { intros e He Hn. assert (X : existsb (mem_byte nul_byte) (env_list st ++ [ts_pwd_prefix ++ cd]) = true).
      { apply existsb_exists. exists e. split; [exact He|apply in_mem_byte; exact Hn]. }
      rewrite E in X. discriminate. }
    split.
    + intros e He. apply Hall. apply in_or_app. left. exact He.
    + intros Hn. apply (Hall (ts_pwd_prefix ++ cd)).
      * apply in_or_app. right. left. reflexivity.
      * apply in_or_app. right. exact Hn.
Qed.

(* ------------------------------------------------------------------ examples (non-vacuity) *)

From Coq Require Import String.

Definition ex_vars : list (list byte) :=
  [bs "WORK=/w"%string; bs "PATH=/bin"%string; bs "novalue"%string; bs "A=first"%string; bs "PATH=/helper:/bin"%string].
Definition ex_st : ts_env :=
  fold_left (fun s args => cmd_env args s)
    [[bs "A=x y"%string; bs "B=1"%string]; [bs "A"%string]; [bs "A=two=2 #"%string; bs "PWD=/elsewhere"%string]; [bs "=odd"%string]]
    (setup_env ex_vars).

Example latest_wins_ex :
  no_sep (bs "A"%string) /\
  Forall (not_assign (bs "A"%string)) [bs "PWD=/elsewhere"%string; bs "=odd"%string; bs "A"%string] /\
  getenv ex_st (bs "A"%string) = bs "two=2 #"%string /\
  getenv ex_st (bs "PATH"%string) = bs "/helper:/bin"%string /\
  getenv ex_st (bs "novalue"%string) = [].
Proof.
  split; [reflexivity|]. split; [|vm_compute; repeat split].
  repeat constructor; intros k' v' H; vm_compute in H; try discriminate H;
    injection H as H1 H2; subst; discriminate.
Qed.

Example child_env_agrees_ex :
  consistent ex_st /\ regular (bs "A"%string) /\ bs "A"%string <> pwd_key /\
  child_env ex_st (bs "/w"%string)
  = Some [bs "WORK=/w"%string; bs "novalue"%string; bs "PATH=/helper:/bin"%string; bs "B=1"%string;
          bs "A=two=2 #"%string; bs "=odd"%string; bs "PWD=/w"%string] /\
  getenv ex_st (bs "PWD"%string) = bs "/elsewhere"%string.
Proof.
  split; [apply reachable_consistent|]. split; [split; [discriminate|reflexivity]|].
  split; [discriminate|]. vm_compute. split; reflexivity.
Qed.

(* a NUL byte anywhere in the list: the child is not started *)
Example child_env_nul_ex : child_env (cmd_env [[x41; x3d; x00]] (setup_env [])) (bs "/w"%string) = None.
Proof. reflexivity. Qed.

(* ts.Setenv with "=" in the key (not reachable through the env command) breaks the agreement:
   the hypothesis [consistent] of child_env_agrees is not vacuous *)
Example inconsistent_ex :
  let st := setenv (bs "a=b"%string) (bs "c"%string) (cmd_env [bs "a=old"%string] (setup_env [])) in
  getenv st (bs "a"%string) = bs "old"%string /\
  list_get (env_list st) (bs "a"%string) = Some (bs "b=c"%string).
Proof. vm_compute. split; reflexivity. Qed.

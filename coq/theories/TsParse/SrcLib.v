(* The state and the library calls of the part of testscript/testscript.go that is translated
   into Gen/TsParseSrc.v (table: harness/cmd/genconsts/gen_tsparse_src.go).  Definitions only.

   [ts_recv] is the denotation of *TestScript: a record of exactly the fields the translated
   methods (parse, expand, Setenv, Getenv, setEnv) touch; any other field access makes the
   translator fail.

   Each library call is DEFINED as the function the hand-written model TsParse/TsParse.v
   already uses for the same call; those are validated against the Go library by the
   correspondence run of harness/cmd/tsparse (400000 strings per standard-library model in
   the thorough tier: os.Expand, regexp.QuoteMeta). *)
From Coq Require Import List Bool NArith.
From Coq.Strings Require Import Byte.
From GI Require Import Lib.Bytes Lib.GoSem Lib.GoSemState Gen.TsParseConsts TsParse.TsParse TsParse.TsFold.
Import ListNotations.
Local Notation bytes := (list byte) (only parsing).

(* type TestScript struct { ...; line string; env []string; envMap map[string]string; ... } *)
Record ts_recv := { r_line : bytes; r_env : list bytes; r_envMap : mapref bytes }.

(* strings.TrimSuffix(s, suffix): the model's [strip_suffix] (None = s does not end in suffix,
   or suffix is empty: s itself) *)
Definition go_strings_TrimSuffix (s suffix : bytes) : bytes :=
  match strip_suffix suffix s with Some r => r | None => s end.

(* regexp.QuoteMeta(s) *)
Definition go_regexp_QuoteMeta (s : bytes) : bytes := quote_meta s.

(* strings.ToLower(s): modelled for ASCII strings only (TsFold.lower); any other use is outside
   the modelled domain.  (envvarname calls it on Windows only.) *)
Definition go_strings_ToLower (s : bytes) : res bytes :=
  if forallb (fun b => N.ltb (bN b) 128) s then Ok (lower s) else Panic.

(* os.Expand(s, mapping) where mapping is a translated function literal, i.e. a computation:
   the model's [expand_go] with the calls of mapping bound in the order in which Expand makes
   them (left to right).  SrcLibFacts.go_os_Expand_pure: for a mapping that always returns,
   this is Ok of the model's [os_expand]. *)
Fixpoint expand_go_m (mapping : bytes -> res bytes) (s : bytes) (skip : nat) : res bytes :=
  match s with
  | [] => Ok []
  | c :: r =>
      match skip with
      | S k => expand_go_m mapping r k
      | O =>
          match r with
          | c' :: r' =>
              if beq c dollar then
                let '(name, w) := get_shell_name c' r' in
                bind (match name, w with
                      | [], O => Ok [c]
                      | [], S _ => Ok []
                      | _, _ => mapping name
                      end)
                     (fun v => bind (expand_go_m mapping r w) (fun rest => Ok (v ++ rest)))
              else bind (expand_go_m mapping r 0) (fun rest => Ok (c :: rest))
          | [] => Ok [c]
          end
      end
  end.
Definition go_os_Expand (s : bytes) (mapping : bytes -> res bytes) : res bytes :=
  expand_go_m mapping s 0.

(* Gen/TsParseSrc.v, second part: the line tokenizer (the method parse of TestScript) as
   translated by harness/go2coq is proved equal to the hand-written model parse_go / ts_parse
   of TsParse/TsParse.v, for every line, every receiver state and every iteration bound
   greater than the length of the line: Ok (Done (receiver with the line recorded, words))
   where the model yields the words, Ok Failed exactly where the model says Fatalf
   ("unterminated quoted argument"); never Panic, never OutOfFuel.

   The loop of parse runs over byte positions; the model recurses over the rest of the line.
   The invariant that ties them: at position k the rest is skipn k line, the model's chunk is
   line[start:k] (None when start = -1), and either start = -1 with arg empty and no open
   quote, or 0 <= start <= k (so that no slice expression can panic).

   The proofs do not mention generated hypothesis or bound-variable names. *)
From Coq Require Import List Bool Arith ZArith NArith Lia.
From Coq.Strings Require Import Byte.
From GI Require Import Lib.Bytes Lib.BytesFacts Lib.GoSem Lib.GoSemExt Lib.GoSemExtFacts Lib.GoSemState
  Gen.TsParseConsts Gen.TsParseSrc TsParse.TsParse TsParse.TsParseFacts TsParse.SrcLib TsParse.SrcLibFacts TsParse.SrcFacts.
Import ListNotations.
Local Notation bytes := (list byte) (only parsing).

(* the variable start of parse: -1, or a position *)
Definition start_z (o : option nat) : Z := match o with Some s => Z.of_nat s | None => (-1)%Z end.
(* line[start:i], None when start < 0 *)
Definition chunk_of (line : bytes) (o : option nat) (k : nat) : option bytes :=
  match o with Some s => Some (firstn (k - s) (skipn s line)) | None => None end.

Lemma start_z_ge o : (start_z o >=? 0)%Z = match o with Some _ => true | None => false end.
Proof. destruct o; [|reflexivity]. cbn [start_z]. rewrite Z.geb_leb. apply Z.leb_le. lia. Qed.
Lemma start_z_lt o : (start_z o <? 0)%Z = match o with Some _ => false | None => true end.
Proof. destruct o; [|reflexivity]. cbn [start_z]. apply Z.ltb_ge. lia. Qed.

Lemma skipn_nth {A} (l : list A) k c : nth_error l k = Some c -> skipn k l = c :: skipn (S k) l.
Proof.
  revert k. induction l as [|a l IH]; intros [|k] H; try discriminate.
  - injection H as <-. reflexivity.
  - cbn [nth_error] in H. cbn [skipn]. rewrite (IH k H). reflexivity.
Qed.

Lemma nth_skipn {A} (l : list A) : forall s n, nth_error (skipn s l) n = nth_error l (s + n).
Proof. induction l as [|a l IH]; intros [|s] n; try reflexivity; [now destruct n|]. cbn [skipn plus nth_error]. apply IH. Qed.

Lemma firstn_snoc {A} (l : list A) s k c : s <= k -> nth_error l k = Some c ->
  firstn (S k - s) (skipn s l) = firstn (k - s) (skipn s l) ++ [c].
Proof.
  intros Hs H. assert (E : nth_error (skipn s l) (k - s) = Some c).
  { rewrite nth_skipn. now replace (s + (k - s)) with k by lia. }
  replace (S k - s) with (S (k - s)) by lia.
  revert E. generalize (k - s) (skipn s l). intros n l'. revert n.
  induction l' as [|a l' IH]; intros [|n] E; try discriminate.
  - injection E as <-. reflexivity.
  - cbn [nth_error] in E. cbn [firstn app]. f_equal. now apply IH.
Qed.

Lemma go_index_nat line k c : nth_error line k = Some c -> go_index line (Z.of_nat k) = Ok c.
Proof.
  intros H. unfold go_index. rewrite index_z_nat, H; [reflexivity|].
  apply nth_error_Some. congruence.
Qed.

Lemma go_slice_nat line s k : s <= k -> k <= length line ->
  go_slice line (Z.of_nat s) (Z.of_nat k) = Ok (firstn (k - s) (skipn s line)).
Proof. intros H1 H2. unfold go_slice. now rewrite slice_z_nat. Qed.

Ltac go_red2 :=
  cbv beta iota zeta;
  cbn [bind bindT bindO bindL negb orb andb fst snd app r_line r_env r_envMap env_list env_map start_z chunk_of].

(* arithmetic side conditions: without the hypotheses that mention the generated loop (lia would
   search them, and the equations between booleans, for constraints) *)
Ltac nlia :=
  repeat match goal with H : context [src_TestScript_parse_loop1] |- _ => clear H end;
  repeat match goal with H : @eq bool _ _ |- _ => clear H end; lia.

Ltac beq_contra :=
  match goal with
  | H1 : beq ?c ?a = true, H2 : beq ?c ?b = true |- _ =>
      apply beq_eq in H1; apply beq_eq in H2; congruence
  end.

Section Loop.
  Variable L : Type.
  Variable fuel : nat.
  Variable ts : ts_recv.
  Variable line : bytes.

  Definition inv (k : nat) (arg : bytes) (o : option nat) (quoted : bool) : Prop :=
    match o with Some s => s <= k | None => arg = [] /\ quoted = false end.

  Lemma src_parse_loop_eq : forall n k args arg o quoted,
    k <= length line -> length line - k < n -> inv k arg o quoted ->
    match parse_go (env_of ts) (skipn k line) args arg (chunk_of line o k) quoted with
    | Some ws => exists a' s' q' i',
        @src_TestScript_parse_loop1 L fuel n ts line args arg (start_z o) quoted (Z.of_nat k)
        = Ok (Normal (ws, a', s', q', i'))
    | None =>
        @src_TestScript_parse_loop1 L fuel n ts line args arg (start_z o) quoted (Z.of_nat k)
        = Ok (Return Failed)
    end.
  Proof.
    induction n as [|n IH]; intros k args arg o quoted Hk Hn Hinv; [nlia|].
    cbn [src_TestScript_parse_loop1].
    assert (Zk1 : (Z.of_nat k + 1)%Z = Z.of_nat (S k)) by nlia.
    destruct (Nat.eq_dec k (length line)) as [->|Hne].
    - (* the end of the line *)
      rewrite skipn_all. cbn [parse_go].
      assert (Hge : (Z.of_nat (length line) >=? len line)%Z = true) by (unfold len; rewrite Z.geb_leb; apply Z.leb_refl).
      rewrite !Hge. rewrite start_z_ge.
      destruct quoted; go_red2.
      + reflexivity.
      + destruct o as [s|]; go_red2.
        * cbn [inv] in Hinv. rewrite go_slice_nat by nlia. go_red2. rewrite src_expand_eq. go_red2.
          unfold go_append, flush_arg. eauto.
        * unfold flush_arg. eauto.
    - (* a character *)
      assert (Hlt : k < length line) by nlia.
      destruct (nth_error line k) as [c|] eqn:Hc; [|apply nth_error_None in Hc; nlia].
      rewrite (skipn_nth line k c Hc), parse_go_cons.
      assert (Hge : (Z.of_nat k >=? len line)%Z = false) by (unfold len; rewrite Z.geb_leb; apply Z.leb_gt; nlia).
      rewrite !Hge, !Zk1, !(go_index_nat line k c Hc), start_z_ge, start_z_lt.
      assert (Hsep : is_sep c = (beq c x20 || (beq c x09 || (beq c x0d || (beq c x23 || false))))) by reflexivity.
      assert (Hcom : is_comment c = (beq c x23 || false)) by reflexivity.
      change ts_quote with x27. change ts_quote_next with x27. rewrite Hsep, Hcom.
      assert (Hk' : S k <= length line) by nlia.
      assert (Hn' : length line - S k < n) by nlia.
      destruct quoted; go_red2.
      + (* inside quotes *)
        destruct o as [s|]; [cbn [inv] in Hinv|destruct Hinv; discriminate]. go_red2.
        destruct (beq c x27) eqn:Eq; go_red2.
        * (* a quote: doubled, or closing *)
          rewrite go_slice_nat by nlia. go_red2.
          cbn [chunk_bytes].
          destruct (nth_error line (S k)) as [c2|] eqn:Hc2.
          -- assert (Hlt2 : S k < length line) by (apply nth_error_Some; congruence).
             rewrite (skipn_nth line (S k) c2 Hc2).
             assert (Hl2 : (Z.of_nat (S k) <? len line)%Z = true) by (unfold len; apply Z.ltb_lt; nlia).
             rewrite Hl2, (go_index_nat line (S k) c2 Hc2). go_red2.
             assert (Zk2 : (Z.of_nat (S k) + 1)%Z = Z.of_nat (S (S k))) by nlia.
             destruct (beq c2 x27) eqn:Eq2; go_red2.
             ++ rewrite Zk2.
                pose proof (IH (S (S k)) args (arg ++ firstn (k - s) (skipn s line)) (Some (S k)) true
                              ltac:(nlia) ltac:(nlia) ltac:(cbn [inv]; nlia)) as H.
                cbn [chunk_of start_z] in H.
                rewrite (firstn_snoc line (S k) (S k) c2) in H by (assumption || nlia).
                rewrite Nat.sub_diag in H. exact H.
             ++ rewrite Zk1.
                pose proof (IH (S k) args (arg ++ firstn (k - s) (skipn s line)) (Some (S k)) false
                              Hk' Hn' ltac:(cbn [inv]; nlia)) as H.
                cbn [chunk_of start_z] in H. rewrite Nat.sub_diag in H.
                rewrite (skipn_nth line (S k) c2 Hc2) in H. exact H.
          -- assert (Hlen : length line = S k) by (apply nth_error_None in Hc2; nlia).
             assert (Hl2 : (Z.of_nat (S k) <? len line)%Z = false) by (unfold len; apply Z.ltb_ge; nlia).
             rewrite Hl2. go_red2. rewrite Zk1.
             pose proof (IH (S k) args (arg ++ firstn (k - s) (skipn s line)) (Some (S k)) false
                           Hk' Hn' ltac:(cbn [inv]; nlia)) as H.
             cbn [chunk_of start_z] in H. rewrite Nat.sub_diag in H.
             replace (skipn (S k) line) with (@nil byte) in * by (symmetry; apply skipn_all2; nlia).
             exact H.
        * (* any other character inside quotes is kept *)
          rewrite Zk1.
          pose proof (IH (S k) args arg (Some s) true Hk' Hn' ltac:(cbn [inv]; nlia)) as H.
          cbn [chunk_of start_z] in H. rewrite (firstn_snoc line s k c) in H by (assumption || nlia).
          exact H.
      + (* outside quotes *)
        destruct (beq c x20) eqn:E1; destruct (beq c x09) eqn:E2; destruct (beq c x0d) eqn:E3;
          destruct (beq c x23) eqn:E4; try beq_contra; go_red2.
        1-3: (* a blank: the argument so far, if any, is complete *)
          destruct o as [s|]; [cbn [inv] in Hinv|destruct Hinv as [-> _]]; go_red2;
          [rewrite go_slice_nat by nlia; go_red2; rewrite src_expand_eq; go_red2|];
          rewrite Zk1;
          [exact (IH (S k) (flush_arg (env_of ts) args arg (Some (firstn (k - s) (skipn s line)))) [] None false
                     Hk' Hn' (conj eq_refl eq_refl))
          |exact (IH (S k) args [] None false Hk' Hn' (conj eq_refl eq_refl))].
        * (* the comment character: the line ends here *)
          destruct o as [s|]; [cbn [inv] in Hinv|]; go_red2.
          -- rewrite go_slice_nat by nlia. go_red2. rewrite src_expand_eq. go_red2.
             unfold go_append, flush_arg. eauto.
          -- unfold flush_arg. eauto.
        * destruct (beq c x27) eqn:Eq; go_red2.
          -- (* an opening quote *)
             destruct o as [s|]; [cbn [inv] in Hinv|]; go_red2;
             [rewrite go_slice_nat by nlia; go_red2; rewrite src_expand_eq; go_red2|];
             rewrite Zk1.
             ++ pose proof (IH (S k) args (arg ++ expand (env_of ts) (firstn (k - s) (skipn s line))) (Some (S k)) true
                              Hk' Hn' ltac:(cbn [inv]; nlia)) as H.
                cbn [chunk_of start_z] in H. rewrite Nat.sub_diag in H. exact H.
             ++ pose proof (IH (S k) args arg (Some (S k)) true Hk' Hn' ltac:(cbn [inv]; nlia)) as H.
                cbn [chunk_of start_z] in H. rewrite Nat.sub_diag in H. exact H.
          -- (* a character of a word *)
             destruct o as [s|]; [cbn [inv] in Hinv|]; go_red2; rewrite Zk1.
             ++ pose proof (IH (S k) args arg (Some s) false Hk' Hn' ltac:(cbn [inv]; nlia)) as H.
                cbn [chunk_of start_z] in H. rewrite (firstn_snoc line s k c) in H by (assumption || nlia).
                exact H.
             ++ pose proof (IH (S k) args arg (Some k) false Hk' Hn' ltac:(cbn [inv]; nlia)) as H.
                cbn [chunk_of start_z] in H. rewrite (firstn_snoc line k k c) in H by (assumption || nlia).
                rewrite Nat.sub_diag in H. exact H.
  Qed.
End Loop.

Theorem src_parse_eq fuel r line : length line < fuel ->
  src_TestScript_parse fuel r line =
  Ok (match ts_parse (env_of r) line with
      | Some ws => Done ({| r_line := line; r_env := r_env r; r_envMap := r_envMap r |}, ws)
      | None => Failed
      end).
Proof.
  intros Hf. unfold src_TestScript_parse, ts_parse. go_red2.
  pose proof (src_parse_loop_eq unit fuel {| r_line := line; r_env := r_env r; r_envMap := r_envMap r |} line
                fuel 0 [] [] None false ltac:(nlia) ltac:(nlia) (conj eq_refl eq_refl)) as H.
  cbn [skipn chunk_of start_z] in H.
  change (env_of {| r_line := line; r_env := r_env r; r_envMap := r_envMap r |}) with (env_of r) in H.
  change (Z.of_nat 0) with 0%Z in H.
  destruct (parse_go (env_of r) line [] [] None false) as [ws|].
  - destruct H as (a' & s' & q' & i' & H). unfold Lib.Bytes.bytes in *. rewrite H. reflexivity.
  - unfold Lib.Bytes.bytes in *. rewrite H. reflexivity.
Qed.

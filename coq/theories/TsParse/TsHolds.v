(* C02 — the property statements as one executable boolean: [c02_holds_on st cd line k v]
   evaluates instances of the theorems of Properties/C02.v on a concrete state (reached by some
   env history), directory, script line, name and value.  Definitions only; extracted with the
   model and asked by the runner for every generated case, so that when a regenerated constant
   breaks a proof the model itself yields a witness input.  TsHoldsFacts.v proves that it is
   constantly true. *)
From Coq Require Import List Bool Arith NArith.
From Coq.Strings Require Import Byte.
From GI Require Import Lib.Bytes Gen.TsParseConsts TsParse.TsParse TsParse.TsSpec.
Import ListNotations.
Local Notation bytes := (list byte) (only parsing).

Fixpoint words_eqb (a b : list bytes) : bool :=
  match a, b with
  | [], [] => true
  | x :: a', y :: b' => bytes_eqb x y && words_eqb a' b'
  | _, _ => false
  end.

Definition opt_words_eqb (a b : option (list bytes)) : bool :=
  match a, b with
  | Some x, Some y => words_eqb x y
  | None, None => true
  | _, _ => false
  end.

Definition opt_bytes_eqb (a b : option bytes) : bool :=
  match a, b with
  | Some x, Some y => bytes_eqb x y
  | None, None => true
  | _, _ => false
  end.

(* the characters the property names *)
Definition h_syntax : bool :=
  blank_byte SP && blank_byte TAB && is_comment x23 && beq ts_quote x27 && beq dollar x24 &&
  bytes_eqb ts_regex_suffix [x40; x52] && beq ts_env_sep x3d && bytes_eqb pwd_key [x50; x57; x44].

(* quoting: the words the line parses to, and the raw line / name / value / empty word, survive
   quoting *)
Definition h_quote (st : ts_env) (line k v : bytes) : bool :=
  (match ts_parse st line with
   | Some ws => opt_words_eqb (ts_parse st (join_sp (map sq ws))) (Some ws)
   | None => true
   end)
  && opt_words_eqb (ts_parse st (join_sp (map sq [line; k; []; v]))) (Some [line; k; []; v]).

(* plain splitting: the ordinary words among those the line parses to, separated by runs of
   spaces and tabs *)
Definition h_plain (st : ts_env) (line : bytes) : bool :=
  match ts_parse st line with
  | Some ws =>
      match filter plain_wordb ws with
      | w0 :: rest =>
          opt_words_eqb
            (ts_parse st ([TAB] ++ w0 ++ join_runs (map (fun w => ([SP; TAB], w)) rest) ++ [SP]))
            (Some (w0 :: map snd (map (fun w => ([SP; TAB], w)) rest)))
      | [] => true
      end
  | None => true
  end.

(* comments: at every comment character that follows an even number of quote characters the rest
   of the line is ignored *)
Fixpoint h_comment_go (st : ts_env) (whole pre_rev rest : bytes) (q : bool) : bool :=
  match rest with
  | [] => true
  | c :: r =>
      (if is_comment c && negb q
       then opt_words_eqb (ts_parse st whole) (ts_parse st (rev pre_rev)) else true)
      && h_comment_go st whole (c :: pre_rev) r (if beq c ts_quote then negb q else q)
  end.
Definition h_comment (st : ts_env) (line : bytes) : bool := h_comment_go st line [] line false.

Definition cword : bytes := [x63].
Definition dot : byte := x2e.

(* expansion happens once: $k, ${k}, ${k@R} with k bound to v, glued to literal text taken from
   the line *)
Definition h_expand (st : ts_env) (line k v : bytes) : bool :=
  let st' := setenv k v st in
  let pre := filter plain_byte line in
  let post := dot :: pre in
  let lit := plain_wordb cword && forallb plain_byte post && no_alnum_headb post in
  (if valid_nameb k && lit
   then opt_words_eqb (ts_parse st' (cword ++ SP :: pre ++ dollar :: k ++ post))
                      (Some [cword; pre ++ v ++ post])
        && opt_words_eqb (ts_parse st' (cword ++ SP :: dollar :: k)) (Some [cword; v])
   else true)
  && (if brace_wordb k && is_nil_opt (strip_suffix ts_regex_suffix k) && lit
      then opt_words_eqb (ts_parse st' (cword ++ SP :: pre ++ dollar :: lbrace :: k ++ rbrace :: post))
                         (Some [cword; pre ++ v ++ post])
      else true)
  && (if brace_wordb k && lit
      then opt_words_eqb
             (ts_parse st' (cword ++ SP :: pre ++ dollar :: lbrace :: (k ++ ts_regex_suffix) ++ rbrace :: post))
             (Some [cword; pre ++ quote_meta v ++ post])
      else true).

(* the latest assignment wins; env k=$k copies the current value *)
Definition h_env (st : ts_env) (line k v : bytes) : bool :=
  (if no_sepb k
   then bytes_eqb (getenv (cmd_env [line; k ++ ts_env_sep :: v] st) k) v
        && bytes_eqb (getenv (cmd_env [k ++ ts_env_sep :: line; k ++ ts_env_sep :: v] st) k) v
   else true)
  && (if valid_nameb k && forallb plain_byte k && no_sepb k
      then bytes_eqb (getenv (fst (ts_step (setenv k v st)
                                     (ts_env_cmd ++ SP :: k ++ ts_env_sep :: dollar :: k))) k) v
      else true).

(* a child sees what the script sees *)
Definition h_child (st : ts_env) (cd k v : bytes) : bool :=
  let st' := cmd_env [k ++ ts_env_sep :: v] st in
  match child_env st' cd with
  | Some l =>
      opt_bytes_eqb (child_lookup pwd_key l) (Some cd)
      && (if regularb k && negb (bytes_eqb k pwd_key)
             && bytes_eqb (getenv st' k) (or_empty (list_get (env_list st') k))
          then bytes_eqb (or_empty (child_lookup k l)) (getenv st' k)
          else true)
  | None => true
  end.

(* QuoteMeta of a valid UTF-8 value denotes the value *)
Definition h_regex (v : bytes) : bool :=
  if utf8_ok v then opt_bytes_eqb (re_literal (quote_meta v)) (Some v) else true.

(* cmpenv expands its second file once; cmp expands nothing *)
Definition h_cmp (st : ts_env) (line k v : bytes) : bool :=
  let st' := setenv k v st in
  let pre := filter (fun c => negb (beq c dollar)) line in
  let post := dot :: pre in
  (if valid_nameb k && no_dollarb post && no_alnum_headb post
   then do_cmd_cmp st' false true [x61] [x62] (pre ++ v ++ post) (pre ++ dollar :: k ++ post)
   else true)
  && do_cmd_cmp st' false false [x61] [x62] line line
  && negb (do_cmd_cmp st' true false [x61] [x62] line line).

Definition c02_holds_on (st : ts_env) (cd line k v : bytes) : bool :=
  h_syntax && h_quote st line k v && h_plain st line && h_comment st line &&
  h_expand st line k v && h_env st line k v && h_child st cd k v && h_regex v && h_cmp st line k v.
